#!/bin/bash
# seedconfirm.sh <deliverable-dir> : confirms a seeded change in a scratch worktree:
# applies, builds, runs the pinned suite (must pass), runs the demonstration (must
# fail), reverts the change and runs the demonstration again (must pass).
set -u
d=$(cd "$1" && pwd)
export GOFLAGS=-mod=mod GOPROXY=off GOSUMDB=off GOTOOLCHAIN=local PATH=/root/go/pkg/mod/golang.org/toolchain@v0.0.1-go1.24.0.linux-amd64/bin:$PATH
wt=$(mktemp -d /tmp/seedwt.XXXX); rmdir "$wt"
git -C /repo worktree add --detach "$wt" HEAD >/dev/null 2>&1 || exit 9
cd "$wt"
res=""
git apply "$d/patch.diff" && res="$res applies" || res="$res NOAPPLY"
go build ./... >/dev/null 2>&1 && res="$res builds" || res="$res NOBUILD"
if go test -vet=off -count=1 ./cmd/... ./pfcpiface/... ./pkg/... > "$wt/.suite.log" 2>&1; then res="$res suite-pass"; else res="$res SUITE-FAIL"; fi
if [ -f "$d/seeded_demo_test.go" ]; then
  cp "$d/seeded_demo_test.go" pfcpiface/seeded_demo_test.go
  demo="go test -vet=off -count=1 -run Seeded ./pfcpiface/"
  run=$(grep -o 'func Test[A-Za-z0-9_]*' pfcpiface/seeded_demo_test.go | sed 's/func //' | paste -sd'|')
  demo="go test -vet=off -count=1 -run ^($run)\$ ./pfcpiface/"
  if $demo > "$wt/.demo1.log" 2>&1; then res="$res DEMO-PASSES-ON-CHANGED"; else res="$res demo-fails-on-changed"; fi
  git apply -R "$d/patch.diff"
  if $demo > "$wt/.demo2.log" 2>&1; then res="$res demo-passes-on-unchanged"; else res="$res DEMO-FAILS-ON-UNCHANGED"; fi
elif [ -f "$d/seeded_demo.py" ]; then
  cp "$d/seeded_demo.py" conf/seeded_demo.py
  if python3 conf/seeded_demo.py > "$wt/.demo1.log" 2>&1; then res="$res DEMO-PASSES-ON-CHANGED"; else res="$res demo-fails-on-changed"; fi
  git apply -R "$d/patch.diff"
  if python3 conf/seeded_demo.py > "$wt/.demo2.log" 2>&1; then res="$res demo-passes-on-unchanged"; else res="$res DEMO-FAILS-ON-UNCHANGED"; fi
fi
echo "CONFIRM $(basename $(dirname $d)):$res"
case "$res" in *[A-Z][A-Z][A-Z]*) tail -15 "$wt"/.suite.log "$wt"/.demo1.log "$wt"/.demo2.log 2>/dev/null | tail -40;; esac
cd /
git -C /repo worktree remove --force "$wt"
