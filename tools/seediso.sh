#!/bin/bash
# seediso.sh <seed-dir> [tier] [props] : like seedtest.sh but never touches /repo or
# /verif/evidence: the patch is applied to a scratch worktree of /repo under /tmp,
# the check runs with VERIF_REPO pointing there and VERIF_OUT redirecting the
# evidence/replay files, and the worktree is removed afterwards. Several may
# run at the same time. Manual tool (mutation testing); not a registered check.
set -u
d=$(cd "$1" && pwd)
tier=${2:-quick}
pid=$(python3 -c "import json,sys;print(json.load(open('$d/meta.json'))['property'])")
props=${3:-$pid}
tag=$(echo "$d" | sed 's|.*/seeded/||; s|/|_|g')
wt=/tmp/si_$tag.$$
out=/tmp/so_$tag.$$
git -C /repo worktree add --detach -f "$wt" HEAD >/dev/null 2>&1 || { echo "worktree failed"; exit 9; }
mkdir -p "$out"
git -C "$wt" apply "$d/patch.diff" || { echo "SEED $tag patch does not apply"; git -C /repo worktree remove --force "$wt"; rm -rf "$out"; exit 8; }
for p in $props; do
  for t in $tier; do
    s=$(date +%s)
    VERIF_REPO=$wt VERIF_OUT=$out /verif/check $p $t > "$out/out.$p.$t" 2>&1
    rc=$?
    e=$(date +%s)
    echo "SEED $tag check=$p tier=$t rc=$rc wall=$((e-s))s"
    grep -E '^(VIOLATION|INCONCLUSIVE|KNOWN-FINDING)' "$out/out.$p.$t" | sed "s|$wt|/repo|g" | head -5
    grep -E '^  (assert|panic|block|exit|race)' "$out/out.$p.$t" | cut -c1-220 | sort | uniq -c | head -6
    [ -n "${SEEDISO_KEEP:-}" ] && cp "$out/out.$p.$t" "/tmp/seediso_$tag.$p.$t.log"
  done
done
git -C /repo worktree remove --force "$wt"
git -C /repo worktree prune
rm -rf "$out"
