#!/bin/bash
# Re-runs every stored seeded change against its property's quick check
# (seedtest.sh applies the patch to /repo, runs the check, restores /repo and
# the evidence directory) and regenerates seeded/MATRIX.md. Manual tool, not a
# registered check. Usage: tools/matrix.sh [logfile]
cd "$(dirname "$0")/.."
log=${1:-/tmp/verif-matrix.log}
: > "$log"
for d in seeded/*/*/; do
  ./seedtest.sh "$d" quick >> "$log" 2>&1
done
python3 tools/matrix_md.py "$log" > seeded/MATRIX.md
