#!/usr/bin/env python3
# mkseedtask.py <property-id> <n> : prepares a mutation-testing task for a fresh
# sub-agent: a scratch worktree of /repo under /tmp/mut/<id>_<n>/wt, an output
# directory and a TASK.md that contains ONLY the property's text, the rules of the
# exercise and one-line summaries of the changes already used for this property
# (nothing about the checks in /verif). Manual tool.
import json, os, subprocess, sys
pid, n = sys.argv[1], sys.argv[2]
V = os.path.dirname(os.path.dirname(os.path.abspath(__file__)))
prop = [json.loads(l) for l in open(os.path.join(V, "properties.jsonl")) if json.loads(l)["id"] == pid][0]
base = f"/tmp/mut/{pid}_{n}"
os.makedirs(base + "/out", exist_ok=True)
wt = base + "/wt"
if not os.path.isdir(wt):
    subprocess.check_call(["git", "-C", "/repo", "worktree", "add", "--detach", "-f", wt, "HEAD"], stdout=subprocess.DEVNULL, stderr=subprocess.DEVNULL)
used = []
sd = os.path.join(V, "seeded", pid)
if os.path.isdir(sd):
    for k in sorted(os.listdir(sd)):
        mp = os.path.join(sd, k, "meta.json")
        if os.path.exists(mp):
            used.append("- " + json.load(open(mp)).get("summary", "")[:400])
py = pid == "C20"
task = f"""# Task: seed one realistic defect

You are working in a scratch git worktree of the open-source project omec-project/upf
(a Go PFCP agent for a 4G/5G UPF; plus a Python route controller in conf/): `{wt}`.
Work ONLY inside `{wt}` and `{base}/out`. Never touch /repo or /verif. Do not use `git stash`
(the stash is shared between worktrees); to undo your change use `git diff > /tmp/x.diff; git apply -R /tmp/x.diff`.

Environment for Go (no network): run every go command with
`export PATH=/root/go/pkg/mod/golang.org/toolchain@v0.0.1-go1.24.0.linux-amd64/bin:$PATH GOTOOLCHAIN=local GOFLAGS=-mod=mod GOPROXY=off GOSUMDB=off`.
The existing test suite is `go test -vet=off -count=1 ./cmd/... ./pfcpiface/... ./pkg/...` (about 20 s).

## The property

The following semantic property of the code base is supposed to hold:

```json
{json.dumps(prop, indent=1)}
```

## What to deliver

Make ONE small, realistic change to the project's own source ({'conf/route_control.py' if py else 'non-test .go files; not go.mod, not vendored or generated code'}) - the kind of slip a
maintainer could make in a refactoring, an optimisation or a hardening - that BREAKS this property while

1. the project still builds and the existing test suite still passes, and
2. the breakage needs something specific to manifest: a particular interleaving, a crash or fault at a
   particular point, a multi-step sequence of operations, an unusual input, or two cooperating sites that each
   look fine alone. NOT something that ordinary use would expose at once.

Changes already used for this property (choose a DIFFERENT function / mechanism):
{chr(10).join(used) if used else '- (none yet)'}

Then write a demonstration that FAILS with your change and PASSES without it:
{'`' + base + '/out/seeded_demo.py` - a plain python3 script (exit status non-zero = fails) that is run as `python3 conf/seeded_demo.py` from the worktree root after being copied to conf/; it may stub pyroute2/pybess/scapy modules itself.' if py else '`' + base + '/out/seeded_demo_test.go` - a Go test file of package pfcpiface (it is copied to pfcpiface/seeded_demo_test.go and run with `go test -vet=off -count=1 -run <its Test functions> ./pfcpiface/`; test function names must start with TestSeeded). It must be deterministic enough to fail reliably with the change (loop / retry inside the test if the failure is schedule dependent; a crash of the test process counts as failing) and pass reliably without it. It may use fakes for sockets, datapath etc.'}

Verify all of this yourself (suite passes with the change; demo fails with the change; demo passes without it).

Finally write into `{base}/out/`:
- `patch.diff` : `git diff` of your source change only (NOT the demo file), relative to the worktree root;
- the demonstration file;
- `meta.json` : {{"property": "{pid}", "summary": "<what was changed, where, and why it breaks the property>", "files": [...],
  "what_is_needed_to_manifest": "...", "why_existing_tests_miss_it": "...", "demo_cmd": "...",
  "demo_result_changed_tree": "...", "demo_result_unchanged_tree": "..."}}

Leave the worktree with your change reverted or not - it will be deleted. Reply with a two-line summary.
"""
open(base + "/TASK.md", "w").write(task)
print(base + "/TASK.md")
