#!/bin/bash
# proc_seed.sh <id> <n> [tier] : confirm a delivered seeded change (scratch worktree),
# store it under seeded/<id>/<n>/, run the property's check against it in isolation.
id=$1; n=$2; tier=${3:-quick}
cd /verif
out=$(./seedconfirm.sh /tmp/mut/${id}_$n/out 2>&1)
echo "$out" | head -30
case "$out" in
  *"applies builds suite-pass demo-fails-on-changed demo-passes-on-unchanged"*) ;;
  *) echo "NOT CONFIRMED $id $n"; exit 1;;
esac
mkdir -p seeded/$id/$n; cp /tmp/mut/${id}_$n/out/* seeded/$id/$n/
git -C /repo worktree remove --force /tmp/mut/${id}_$n/wt 2>/dev/null
tools/seediso.sh seeded/$id/$n "$tier"
