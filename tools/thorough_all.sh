#!/bin/bash
# Runs the thorough tier of the listed properties one after the other (used with
# `vp run --with-repo`, from a snapshot). Not a registered check.
cd "$(dirname "$0")/.."
[ -n "${VP_RUN_REPO:-}" ] && export VERIF_REPO="$VP_RUN_REPO"
./build.sh || exit 2
for p in "$@"; do
  s=$(date +%s)
  timeout 5400 ./check $p thorough > thorough_$p.log 2>&1
  rc=$?
  e=$(date +%s)
  echo "THOROUGH $p rc=$rc wall=$((e-s))s"
  grep -E '^(VIOLATION|INCONCLUSIVE|KNOWN-FINDING)' thorough_$p.log | cut -c1-300 | head -8
  tail -1 thorough_$p.log | cut -c1-300
done
