#!/bin/bash
# seedtest.sh <seed-dir> [tier] : applies <seed-dir>/patch.diff to /repo, runs the
# property's check (quick, then thorough if quick is silent and tier=both), restores
# /repo and the evidence directory. Prints one summary line.
# Usage is manual (mutation testing); it is not registered in MANIFEST.json.
set -u
d=$(cd "$1" && pwd)
tier=${2:-quick}
pid=$(python3 -c "import json,sys;print(json.load(open('$d/meta.json'))['property'])")
props=${3:-$pid}
cd /verif
if [ -n "$(git -C /repo status --porcelain)" ]; then echo "refusing: /repo is dirty"; exit 9; fi
sav=$(mktemp -d /tmp/evsave.XXXX)
cp -r /verif/evidence "$sav/"
git -C /repo apply "$d/patch.diff" || { echo "patch does not apply"; rm -rf "$sav"; exit 8; }
for p in $props; do
  for t in $tier; do
    s=$(date +%s)
    ./check $p $t > "$sav/out.$p.$t" 2>&1
    rc=$?
    e=$(date +%s)
    echo "SEED $(basename $d) check=$p tier=$t rc=$rc wall=$((e-s))s"
    grep -E '^(VIOLATION|INCONCLUSIVE|KNOWN-FINDING)' "$sav/out.$p.$t" | head -5
    grep -E '^  (assert|panic|block|exit|race)' "$sav/out.$p.$t" | cut -c1-220 | sort | uniq -c | head -6
  done
done
git -C /repo checkout -- .
git -C /repo status --porcelain | head -3
rm -rf /verif/evidence; cp -r "$sav/evidence" /verif/evidence
rm -rf "$sav"
