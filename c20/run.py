#!/usr/bin/env python3
"""C20 check: CrossHair (z3-backed symbolic execution) of the real
conf/route_control.py over all event sequences of a bounded length.

usage: run.py quick|thorough      (exit 0 held / 1 VIOLATION / 2 inconclusive / 3 engine mismatch)
       run.py replay <file>
"""
import concurrent.futures
import json
import os
import re
import shutil
import subprocess
import sys
import tempfile
import time

HERE = os.path.dirname(os.path.abspath(__file__))
VERIF = os.path.dirname(HERE)
OUT = os.environ.get("VERIF_OUT") or VERIF
sys.path.insert(0, HERE)
import gen  # noqa: E402

KIND_NAMES = {"N": "RTM_NEWROUTE", "D": "RTM_DELROUTE", "R": "RTM_NEWNEIGH", "K": "(kernel resolves, notification pending)"}


def known_findings():
    try:
        return [k for k in json.load(open(os.path.join(VERIF, "known_findings.json"))) if k["property"] == "C20"]
    except Exception:
        return []


def check_one(args):
    path, func, timeout, first = args
    t0 = time.time()
    env = dict(os.environ, PYTHONPATH=HERE + os.pathsep + os.environ.get("PYTHONPATH", ""))
    cmd = ["python3-vt", "-m", "crosshair", "check", "--report_all", "--per_condition_timeout=%d" % timeout,
           "--per_path_timeout=%d" % timeout, path]
    try:
        r = subprocess.run(cmd, capture_output=True, text=True, env=env, timeout=timeout * 2 + 60)
        out = r.stdout + r.stderr
    except subprocess.TimeoutExpired:
        out = "timeout"
    return func, out, time.time() - t0, first


def concrete(kinds, vals):
    import model
    evs = [(gen.CODE[k], vals[3 * j], vals[3 * j + 1], vals[3 * j + 2]) for j, k in enumerate(kinds)]
    return evs, model.run(evs)


def describe(evs):
    import model
    out = []
    for kind, p, h, i in evs:
        n = ["RTM_NEWROUTE", "RTM_DELROUTE", "RTM_NEWNEIGH", "(kernel resolves, notification pending)"][kind]
        if kind >= 2:
            out.append("%s %s" % (n, model.HOPS[h]))
        else:
            out.append("%s %s/16 via %s dev %s" % (n, model.PREFIXES[p], model.HOPS[h], model.IFACES[i]))
    return out


def main():
    if len(sys.argv) >= 3 and sys.argv[1] == "replay":
        rf = json.load(open(sys.argv[2]))
        evs = [tuple(e) for e in rf["events"]]
        import model
        ok, verdict = model.run(evs)
        print("replay %s: %s -> %r" % (sys.argv[2], describe(evs), verdict))
        if ok and verdict:
            print("VIOLATION property=C20 replay=%s" % sys.argv[2])
            return 1
        print("does not reproduce on the current tree")
        return 0

    tier = sys.argv[1] if len(sys.argv) > 1 else os.environ.get("VERIF_TIER", "quick")
    length = 3 if tier == "quick" else 4
    per_cond = 300 if tier == "quick" else 900
    start = time.time()
    tmp = tempfile.mkdtemp(prefix="verif-c20-")
    jobs = []
    try:
        import itertools
        seqs = list(itertools.product(gen.KINDS, repeat=length))
        if tier == "quick":
            # plus the smallest histories in which a list of routes waiting for one
            # next hop matters: two new routes, one deletion, one resolution, any order
            seqs += sorted(set(itertools.permutations("NNDR")))
            # ... and those in which the controller can read a resolution from the
            # kernel's table before its notification arrives
            seqs += sorted(set(itertools.permutations("NKNR")))
        else:
            for pos in range(length):
                for rest in itertools.product(gen.KINDS, repeat=length - 1):
                    seqs.append(tuple(rest[:pos]) + ("K",) + tuple(rest[pos:]))
        # ... and (both tiers, universe A only) the smallest histories in which a next
        # hop's reference count goes up twice and down to zero: two routes through one
        # next hop, both withdrawn, one resolution, any order
        # (both new routes before both deletions, the notification anywhere: 5 orders;
        # their first TWO events are concrete per process)
        five = [tuple("NNDD"[:k]) + ("R",) + tuple("NNDD"[k:]) for k in range(5)]
        # (a six-event family KKNNDN - a gate number handed out after a next hop was
        # released - was tried for seed C20/6: 2 of its 4 processes ended in a
        # CrossHair RecursionError after 300 s; not registered, recorded as a gap)
        if os.environ.get("VERIF_C20_EXTRA"):
            five.append(tuple("KKNNDN"))  # experimental, see the comment above
        only = os.environ.get("VERIF_C20_ONLY")  # debugging: one kind sequence
        for universe in ("A", "B"):
            for kinds in seqs + (five if universe == "A" else []):
                if only and "".join(kinds) != only:
                    continue
                length = len(kinds)
                name = "seq%s_%s" % (universe, "".join(kinds))
                np_, nh, ni = gen.universe_sizes(universe)
                # one CrossHair process per (kind sequence, concrete first event);
                # a NEWNEIGH first event only depends on the hop
                firsts = [(p, h, i) for p in range(np_) for h in range(nh) for i in range(ni)]
                if kinds[0] in "RK":
                    firsts = [(0, h, 0) for h in range(nh)]
                if length >= 5:
                    seconds = [(p, h, i) for p in range(np_) for h in range(nh) for i in range(ni)]
                    if kinds[1] in "RK":
                        seconds = [(0, h, 0) for h in range(nh)]
                    firsts = [f + g for f in firsts for g in seconds]
                for first in firsts:
                    src = gen.gen_one(length, universe, kinds, first)
                    path = os.path.join(tmp, "%s_%s.py" % (name, "".join(str(x) for x in first)))
                    open(path, "w").write(src)
                    jobs.append((path, name, per_cond, first))
        results = []
        with concurrent.futures.ThreadPoolExecutor(max_workers=int(os.environ.get("VERIF_JOBS", "16"))) as ex:
            for r in ex.map(check_one, jobs):
                results.append(r)
    finally:
        shutil.rmtree(tmp, ignore_errors=True)

    known = known_findings()
    confirmed, inconclusive, violations, mismatches, samples = 0, [], [], [], []
    exit_code = 0
    os.makedirs(os.path.join(OUT, "replays", "C20"), exist_ok=True)
    for f in os.listdir(os.path.join(OUT, "replays", "C20")):
        if f.startswith(tier + "-"):
            os.remove(os.path.join(OUT, "replays", "C20", f))
    seen_known = set()
    for func, out, secs, first in results:
        kinds = func.split("_")[1]
        m = re.search(r"error: false when calling %s\(([-0-9, ]+)\)" % func, out)
        if m:
            vals = list(first) + [int(x) for x in m.group(1).split(",")]
            evs, (ok, verdict) = concrete(kinds, vals)
            if not (ok and verdict):
                mismatches.append("%s: CrossHair reports %s but plain CPython returns %r" % (func, vals, verdict))
                continue
            # finding class = universe + first word of the verdict (missing / stale / gate / routes / next / MAC-rewrite)
            cls = func[3] + "|" + verdict.split(":")[0].split(" ")[0]
            rec = {"function": func, "events": evs, "described": describe(evs), "verdict": verdict, "class": cls}
            kf = [k for k in known if k.get("status") == "known" and k["signature"] == "C20|" + cls]
            if kf:
                if kf[0]["signature"] not in seen_known:
                    seen_known.add(kf[0]["signature"])
                    print("KNOWN-FINDING: property=C20 %s" % kf[0]["what"])
                rec["known_finding"] = kf[0]["what"]
                violations.append(rec)
                continue
            path = os.path.join(OUT, "replays", "C20", "%s-%s_%s.json" % (tier, func, "".join(str(x) for x in first)))
            json.dump({"property": "C20", "function": func, "events": evs, "verdict": verdict}, open(path, "w"))
            rec["replay"] = path
            violations.append(rec)
            print("VIOLATION property=C20 replay=%s" % path)
            print("  %s -> %s" % ("; ".join(describe(evs)), verdict))
            exit_code = 1
        elif "Confirmed over all paths" in out:
            confirmed += 1
            if len(samples) < 6:
                samples.append({"function": func, "kinds": [KIND_NAMES[k] for k in kinds], "verdict": "Confirmed over all paths", "seconds": round(secs, 1)})
        else:
            tail = [l for l in out.strip().splitlines() if l.strip()][-1:] or ["no output"]
            inconclusive.append("%s: %s" % (func, tail[0][:200]))
    if mismatches and exit_code == 0:
        exit_code = 3
    elif inconclusive and exit_code == 0:
        exit_code = 2
    for msg in mismatches:
        print("INCONCLUSIVE property=C20 ENGINE-MISMATCH %s" % msg)
    for msg in inconclusive:
        print("INCONCLUSIVE property=C20 %s" % msg)

    universes = "A: 3 prefixes x 2 next hops x 1 interface; B: 2 prefixes x 1 next hop x 2 interfaces"
    ev = {
        "property_id": "C20", "tier": tier, "seed": int(os.environ.get("VERIF_SEED", "0") or 0), "level": "model_checking",
        "coverage": {
            "states": max(confirmed, 0), "transitions": len(results) * length,
            "traces_validated_against_impl": len([v for v in violations]) + 0,
            "samples": samples + violations[:4] or [{"note": "nothing confirmed"}],
            "exhaustive": not inconclusive and not mismatches,
            "explanation": "states = harness functions (one per sequence of event kinds and universe) for which CrossHair's symbolic execution of the real route_control.py returned 'Confirmed over all paths' (all index values, all paths); transitions = events executed per function x functions; counterexamples are re-run under plain CPython before being reported",
            "functions_encoded": ["conf/route_control.py: RouteController.add_new_route_entry, _add_neighbor, _create_update_module, _create_module_links, add_unresolved_new_neighbor, delete_route_entry, _probe_addr, _get_gate_idx, fetch_mac, validate_ipv4, get_*_module_name, mac_to_int, mac_to_hex"],
            "bounds": ["%s, universes %s" % ("3 events per sequence, all 27 kind sequences, plus the 12 orders of {new route, new route, delete route, neighbour resolution} and the 12 orders of {new route, kernel resolves (notification pending), new route, notification}, and (universe A) the 5 orders of {new route, new route, delete route, delete route} with the notification at any position" if tier == "quick" else "4 events per sequence: all 81 sequences of new/delete/notification plus the 108 with one silent kernel resolution, and (universe A) the 5 orders of {new route, new route, delete route, delete route} with the notification at any position", universes),
                       "events the kernel cannot produce (duplicate RTM_NEWROUTE, RTM_DELROUTE of an absent route, repeated RTM_NEWNEIGH) are skipped"],
            "queries": len(results), "solver": "CrossHair 0.0.x over z3 (python3-vt)", "solver_s": round(sum(r[2] for r in results), 1),
            "functions_confirmed": confirmed, "functions_total": len(results),
            "stubs": ["pyroute2 / pybess.bess / scapy.all stub modules", "send_ping = no-op", "BessController replaced by a recording stand-in (module graph)", "NDB neighbour table driven by the events"],
            "inconclusive": inconclusive, "violations_reported": violations,
        },
        "assumptions": ["netlink message parsing (_parse_route_entry_msg), the retry loops of BessController and the ping thread are outside",
                        "the kernel model emits RTM_DELROUTE only for routes it has and RTM_NEWNEIGH once per next hop"],
        "wall_s": round(time.time() - start, 1),
        "violations": len([v for v in violations if "known_finding" not in v]),
    }
    os.makedirs(os.path.join(OUT, "evidence"), exist_ok=True)
    json.dump(ev, open(os.path.join(OUT, "evidence", "C20.json"), "w"), indent=1)
    print("C20 %s: functions=%d confirmed=%d violations=%d inconclusive=%d wall=%.1fs exit=%d" % (
        tier, len(results), confirmed, len(violations), len(inconclusive) + len(mismatches), time.time() - start, exit_code))
    return exit_code


if __name__ == "__main__":
    sys.exit(main())
