# Stub of pybess.bess: route_control.py does `from pybess.bess import *` and
# uses BESS and errno from it.
import errno  # noqa: F401


class BESS:
    class Error(Exception):
        def __init__(self, code=0, errmsg=""):
            self.code = code
            self.errmsg = errmsg

    class RPCError(Exception):
        pass

    def is_connected(self):
        return True

    def connect(self, grpc_url=None):
        pass
