class rtmsg:
    pass
