class ndmsg:
    pass
