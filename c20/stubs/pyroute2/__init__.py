# Stub of pyroute2 for the C20 harness: only the names route_control.py imports.
class NDB:
    pass


class IPRoute:
    pass
