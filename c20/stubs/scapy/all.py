# Stub of scapy.all: sending a ping is a no-op in the harness.
class _Layer:
    def __init__(self, **kw):
        pass

    def __truediv__(self, other):
        return self


ICMP = _Layer
IP = _Layer


def send(pkt):
    pass
