"""Harness support for C20: fakes around the REAL RouteController of
$VERIF_REPO/conf/route_control.py, a kernel model that produces the events,
and the postconditions of the property.

The event universes are small and fixed; an event is (kind, prefix index,
next-hop index, interface index) with kind 0 = RTM_NEWROUTE, 1 = RTM_DELROUTE,
2 = RTM_NEWNEIGH, 3 = the kernel learns the next hop's MAC (its neighbour table
has the entry) but the RTM_NEWNEIGH notification has not been delivered yet -
netlink notifications are asynchronous, and the controller also reads the table
directly when a route arrives.
"""
import os
import sys

HERE = os.path.dirname(os.path.abspath(__file__))
sys.path.insert(0, os.path.join(HERE, "stubs"))
sys.path.insert(0, os.path.join(os.environ.get("VERIF_REPO", "/repo"), "conf"))

import logging  # noqa: E402

import route_control as rc  # noqa: E402  (the real, unmodified controller)

logging.disable(logging.CRITICAL)
rc.send_ping = lambda ip: None  # no packets from the harness

NEWROUTE, DELROUTE, NEWNEIGH, KRESOLVE = 0, 1, 2, 3
PREFIXES = ["10.1.0.0", "10.2.0.0", "10.3.0.0"]
HOPS = ["192.168.1.1", "192.168.1.2"]
MACS = ["00:00:00:00:00:01", "00:00:00:00:00:02"]
IFACES = ["access", "core"]


class FakeBess:
    """Recording stand-in for BessController: reconstructs the module graph.

    Like the real wrapper after its retries, an operation on something that
    does not exist changes nothing (the real one logs and gives up)."""

    def __init__(self):
        self.routes = {}  # route module -> {(prefix, len): gate}
        self.modules = {}  # update module name -> gateway mac (int)
        self.links = []  # (module, next module, ogate, igate)
        self.failed_deletes = []

    def add_route_to_module(self, route_entry, gate_idx, module_name):
        self.routes.setdefault(module_name, {})[(route_entry.dest_prefix, route_entry.prefix_len)] = gate_idx

    def delete_module_route_entry(self, route_entry):
        mod = route_entry.interface + "Routes"
        self.routes.get(mod, {}).pop((route_entry.dest_prefix, int(route_entry.prefix_len)), None)

    def create_module(self, module_name, module_class, gateway_mac):
        self.modules.setdefault(module_name, gateway_mac)

    def link_modules(self, module, next_module, ogate, igate):
        self.links.append((module, next_module, ogate, igate))

    def delete_module(self, module_name):
        if module_name in self.modules:
            del self.modules[module_name]
            self.links = [l for l in self.links if l[0] != module_name and l[1] != module_name]
        else:
            # the real wrapper retries MAX_RETRIES times and then raises
            self.failed_deletes.append(module_name)
            raise Exception("Module {} deletion failure.".format(module_name))


class _Neighbours:
    def __init__(self):
        self.table = []

    def dump(self):
        return list(self.table)


class FakeNDB:
    def __init__(self):
        self.neighbours = _Neighbours()


class World:
    """Kernel model + the real controller on fakes."""

    def __init__(self):
        self.bess = FakeBess()
        self.ndb = FakeNDB()
        self.ctl = rc.RouteController(
            bess_controller=self.bess, ndb=self.ndb, ipr=None, interfaces=list(IFACES)
        )
        self.kernel_routes = {}  # (prefix idx, iface idx) -> hop idx
        self.resolved = set()  # hop idx whose RTM_NEWNEIGH was delivered
        self.kernel_resolved = set()  # hop idx in the kernel's neighbour table

    def apply(self, kind, p, h, i):
        """Applies one event; returns False if the kernel could not have produced it."""
        if kind == NEWROUTE:
            if (p, i) in self.kernel_routes:
                return False  # the kernel does not add the same route twice
            self.kernel_routes[(p, i)] = h
            self.ctl.add_new_route_entry(
                rc.RouteEntry(next_hop_ip=HOPS[h], interface=IFACES[i], dest_prefix=PREFIXES[p], prefix_len=16)
            )
        elif kind == DELROUTE:
            if self.kernel_routes.get((p, i)) != h:
                return False  # RTM_DELROUTE only for a route the kernel has
            del self.kernel_routes[(p, i)]
            self.ctl.delete_route_entry(
                rc.RouteEntry(next_hop_ip=HOPS[h], interface=IFACES[i], dest_prefix=PREFIXES[p], prefix_len=16)
            )
        elif kind == KRESOLVE:
            if h in self.kernel_resolved:
                return False
            self.kernel_resolved.add(h)
            self.ndb.neighbours.table.append({"dst": HOPS[h], "lladdr": MACS[h]})
        else:
            if h in self.resolved:
                return False  # RTM_NEWNEIGH once per resolution
            self.resolved.add(h)
            if h not in self.kernel_resolved:
                self.kernel_resolved.add(h)
                self.ndb.neighbours.table.append({"dst": HOPS[h], "lladdr": MACS[h]})
            self.ctl.add_unresolved_new_neighbor(
                {"event": "RTM_NEWNEIGH", "attrs": [("NDA_DST", HOPS[h]), ("NDA_LLADDR", MACS[h])]}
            )
        return True

    # ---- the property, clause by clause (each returns "" or what is wrong)
    def check(self):
        installed = {}  # (p, i) -> gate
        for i, iface in enumerate(IFACES):
            for (prefix, plen), gate in self.bess.routes.get(iface + "Routes", {}).items():
                installed[(PREFIXES.index(prefix), i)] = gate
        # required: routes whose next hop's resolution was notified; allowed: routes
        # whose next hop is in the kernel's table (the controller may have read it)
        want = {k for k, h in self.kernel_routes.items() if h in self.resolved}
        allowed = {k for k, h in self.kernel_routes.items() if h in self.kernel_resolved}
        for k in want:
            if k not in installed:
                return "missing: route %s via %s on %s is in the kernel and its next hop is resolved, but not installed" % (
                    PREFIXES[k[0]], HOPS[self.kernel_routes[k]], IFACES[k[1]])
        for k in installed:
            if k not in allowed:
                return "stale: route %s on %s is installed but the kernel does not have it (or its next hop is unresolved)" % (
                    PREFIXES[k[0]], IFACES[k[1]])
        # one gate and one update module per next hop (per interface); distinct hops, distinct gates
        gate_of = {}
        for k, gate in installed.items():
            hop, i = self.kernel_routes[k], k[1]
            if gate_of.setdefault((hop, i), gate) != gate:
                return "routes through %s on %s use different gates" % (HOPS[hop], IFACES[i])
        for (h1, i1), g1 in gate_of.items():
            for (h2, i2), g2 in gate_of.items():
                if i1 == i2 and h1 != h2 and g1 == g2:
                    return "next hops %s and %s share gate %d on %s" % (HOPS[h1], HOPS[h2], g1, IFACES[i1])
        # MAC-rewrite module: the module the route module's gate is linked to.
        # It exists iff at least one installed route uses it.
        used = set()
        for (hop, i), gate in gate_of.items():
            linked = [l[1] for l in self.bess.links if l[0] == IFACES[i] + "Routes" and l[2] == gate]
            if not linked:
                return "gate %d of %sRoutes (next hop %s) is not linked to a MAC-rewrite module" % (gate, IFACES[i], HOPS[hop])
            if len(set(linked)) != 1:
                return "gate %d of %sRoutes is linked to several modules" % (gate, IFACES[i])
            used.add(linked[0])
        for m in used:
            if m not in self.bess.modules:
                return "MAC-rewrite module %s is used by an installed route but does not exist" % m
            if self.bess.modules[m] is None:
                return "MAC-rewrite module %s has no gateway MAC" % m
        for m in self.bess.modules:
            if m not in used:
                return "MAC-rewrite module %s exists although no installed route uses it" % m
        return ""


def run(events):
    """events: list of (kind, p, h, i). Returns (feasible, verdict string)."""
    w = World()
    for ev in events:
        if not w.apply(*ev):
            return False, ""
    return True, w.check()
