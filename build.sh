#!/bin/sh
# Build the engine offline with the cached go1.24.0 toolchain.
set -e
cd "$(dirname "$0")/engine"
GO124=/root/go/pkg/mod/golang.org/toolchain@v0.0.1-go1.24.0.linux-amd64/bin
if [ -x "$GO124/go" ]; then
  export PATH="$GO124:$PATH" GOTOOLCHAIN=local
else
  export GOTOOLCHAIN=auto
fi
export GOFLAGS=-mod=mod GOPROXY=off GOSUMDB=off CGO_ENABLED=0
mkdir -p ../bin
go build -o ../bin/gosym ./cmd/gosym
