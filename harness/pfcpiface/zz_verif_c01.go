//go:build verif

package pfcpiface

import (
	"time"
	"github.com/wmnsk/go-pfcp/ie"
	"github.com/wmnsk/go-pfcp/message"
)

// C01 — no PFCP datagram can crash or wedge the agent.

// vNode is an IE tree the harness serialises itself, so that every
// structural mutation (drop / duplicate / empty / truncate / retype /
// arbitrary first byte / arbitrary payload) is expressible as wire bytes.
type vNode struct {
	typ      uint16
	payload  []byte
	children []*vNode
	grouped  bool
}

func vNodeOf(i *ie.IE) *vNode {
	if i == nil {
		return nil
	}
	n := &vNode{typ: i.Type}
	if i.IsGrouped() {
		n.grouped = true
		for _, c := range i.ChildIEs {
			if c != nil {
				n.children = append(n.children, vNodeOf(c))
			}
		}
		return n
	}
	n.payload = append([]byte{}, i.Payload...)
	return n
}

func (n *vNode) bytes() []byte {
	var body []byte
	if n.grouped {
		for _, c := range n.children {
			body = append(body, c.bytes()...)
		}
	} else {
		body = n.payload
	}
	out := []byte{byte(n.typ >> 8), byte(n.typ), byte(len(body) >> 8), byte(len(body))}
	return append(out, body...)
}

// vFlatten lists the nodes of a forest in DFS order together with the slice
// that holds them (so that a node can be dropped or duplicated in place).
type vSite struct {
	parent *vNode // nil: top level
	idx    int
}

func vSites(top []*vNode) []vSite {
	var out []vSite
	var walk func(parent *vNode, list []*vNode, depth int)
	walk = func(parent *vNode, list []*vNode, depth int) {
		for k, n := range list {
			out = append(out, vSite{parent, k})
			if n.grouped && depth < 3 {
				walk(n, n.children, depth+1)
			}
		}
	}
	walk(nil, top, 0)
	return out
}

const vNumOps = 8

var vFlowPrefixes = []string{
	"", "permit", "permit out", "permit out ip", "permit out ip from", "permit out ip from any",
	"permit out ip from any to", "permit out ip from 10.0.0.0/8 80 to", "permit out ip to", "permit out ip to assigned 80-",
	"permit out ip from any 80", "permit out ip from any to assigned 90-80", "bogus out ip from any to assigned",
	"permit sideways ip from any to assigned", "permit out 300 from any to assigned", "permit out ip from 1.2.3.4/40 to assigned",
}

// vMutate applies one mutation chosen by (site, op) to the forest.
func vMutate(top []*vNode, tag string) []*vNode {
	sites := vSites(top)
	s := vChoose(tag+"site", len(sites)+1)
	if s == len(sites) {
		vTag(tag + "none")
		return top
	}
	st := sites[s]
	list := top
	if st.parent != nil {
		list = st.parent.children
	}
	n := list[st.idx]
	op := vChoose(tag+"op", vNumOps)
	set := func(l []*vNode) {
		if st.parent != nil {
			st.parent.children = l
		} else {
			top = l
		}
	}
	switch op {
	case 0: // drop
		nl := append([]*vNode{}, list[:st.idx]...)
		set(append(nl, list[st.idx+1:]...))
	case 1: // duplicate
		nl := append([]*vNode{}, list[:st.idx+1]...)
		nl = append(nl, n)
		set(append(nl, list[st.idx+1:]...))
	case 2: // empty
		n.payload, n.children = nil, nil
	case 3: // truncate by one byte (a grouped IE loses the tail of its last child)
		if n.grouped {
			b := n.bytes()[4:]
			if len(b) > 0 {
				n.grouped, n.payload = false, b[:len(b)-1]
				// keep the grouped type: the parser will see a truncated child
			}
		} else if len(n.payload) > 0 {
			n.payload = n.payload[:len(n.payload)-1]
		}
	case 4: // retype to an IE type nobody expects here
		n.typ = 249
	case 5: // arbitrary first byte (flags: v6-only, CHOOSE, ...)
		if n.typ == ie.NodeID {
			// node id type: IPv4 / IPv6 / FQDN / invalid, with the same bytes
			n.payload = append([]byte{byte(vChoose(tag+"nidtype", 4))}, n.payload[1:]...)
		} else if !n.grouped && len(n.payload) > 0 {
			n.payload = append([]byte{vU8(tag + "b0")}, n.payload[1:]...)
		} else {
			n.grouped, n.payload, n.children = false, []byte{vU8(tag + "b0")}, nil
		}
	case 6: // keep only the first byte
		if !n.grouped && len(n.payload) > 1 {
			n.payload = n.payload[:1]
		} else {
			n.grouped, n.payload, n.children = false, []byte{0}, nil
		}
	case 7: // arbitrary payload of the same length (leaf, <= 8 bytes); truncated flow description for SDF filters
		if n.typ == ie.SDFFilter {
			k := vChoose(tag+"flow", len(vFlowPrefixes))
			n.payload = vNodeOf(ie.NewSDFFilter(vFlowPrefixes[k], "", "", "", 0)).payload
			if vFlowPrefixes[k] == "" {
				n.payload = []byte{0x01, 0x00, 0x00, 0x00} // FD flag set, zero-length description
			}
		} else if n.typ == ie.NodeID || n.typ == ie.ApplicationID || n.typ == ie.NetworkInstance {
			// textual payloads: another concrete text (character-level decoding of
			// symbolic text is outside the engine's string model)
			n.payload = []byte{2, 1, 'x'}
		} else if !n.grouped && len(n.payload) > 0 && len(n.payload) <= 8 {
			n.payload = vBytes(tag+"p", len(n.payload))
		} else if !n.grouped {
			// long leaf: arbitrary first and last byte (inner length fields stay
			// concrete: symbolic offsets inside long payloads are outside the bound)
			p := append([]byte{vU8(tag + "pf")}, n.payload[1:len(n.payload)-1]...)
			n.payload = append(p, vU8(tag+"pl"))
		}
	}
	return top
}

func vDatagram(typ uint8, withSEID bool, seid uint64, seq uint32, top []*vNode) []byte {
	var body []byte
	for _, n := range top {
		body = append(body, n.bytes()...)
	}
	hdr := []byte{0x20, typ, 0, 0}
	if withSEID {
		hdr[0] = 0x21
		hdr = append(hdr, byte(seid>>56), byte(seid>>48), byte(seid>>40), byte(seid>>32), byte(seid>>24), byte(seid>>16), byte(seid>>8), byte(seid))
	}
	hdr = append(hdr, byte(seq>>16), byte(seq>>8), byte(seq), 0)
	l := len(hdr) - 4 + len(body)
	hdr[2], hdr[3] = byte(l>>8), byte(l)
	// exact capacity: slice capacities after append differ between the engine's
	// boxed slices and native byte slices, and go-pfcp reslices within capacity
	out := make([]byte, len(hdr)+len(body))
	copy(out, hdr)
	copy(out[len(hdr):], body)
	return out
}

func vNodes(ies ...*ie.IE) []*vNode {
	var out []*vNode
	for _, i := range ies {
		if i != nil {
			out = append(out, vNodeOf(i))
		}
	}
	return out
}

// concrete baseline rules (C01 is about structure; leaf values become
// arbitrary through mutation ops 5 and 7)
func vConcreteRules() ([]vPDRSpec, []vFARSpec, []vQERSpec) {
	ue := [4]byte{10, 250, 0, 5}
	up := vPDRSpec{uplink: true, id: 1, prec: 100, teid: 0x1234, n3: [4]byte{198, 18, 0, 1}, ue: ue, farID: 1, qerIDs: []uint32{1, 4},
		sdf: "permit out ip from 10.1.0.0/16 80-90 to assigned"}
	dn := vPDRSpec{uplink: false, id: 2, prec: 100, ue: ue, farID: 2, qerIDs: []uint32{2, 4}}
	fu := vFARSpec{id: 1, action: ActionForward, uplink: true}
	fd := vFARSpec{id: 2, action: ActionForward, uplink: false, teid: 0x5678, peer: [4]byte{198, 18, 0, 9}}
	q1 := vQERSpec{id: 1, qfi: 9, gate: 0, ulMbr: 1000, dlMbr: 2000}
	q2 := vQERSpec{id: 2, qfi: 9, gate: 0, ulMbr: 1000, dlMbr: 2000}
	q4 := vQERSpec{id: 4, qfi: 0, gate: 0, ulMbr: 50000, dlMbr: 50000}
	return []vPDRSpec{up, dn}, []vFARSpec{fu, fd}, []vQERSpec{q1, q2, q4}
}

func vEstablishOne(e *vEnv, cp uint64) (uint64, bool) {
	pdrs, fars, qers := vConcreteRules()
	before := len(e.conn.writes)
	e.vSend(vEstablishment(7, cp, "cp.test", pdrs, fars, qers))
	if len(e.conn.writes) != before+1 {
		return 0, false
	}
	r, ok := e.vLastReply().(*message.SessionEstablishmentResponse)
	if !ok || vCauseOf(r.Cause) != ie.CauseRequestAccepted || r.UPFSEID == nil {
		return 0, false
	}
	fs, err := r.UPFSEID.FSEID()
	if err != nil {
		return 0, false
	}
	return fs.SEID, true
}

var vC01Muts = 1
var vC01Profiles = 4

// vC01Kinds: the message types HandlePFCPMsg dispatches.
const vC01Kinds = 12

// H_C01_ie: a mutated message of every dispatched type, injected after 0 or 1
// accepted establishments, followed by a valid heartbeat.
func H_C01_ie() {
	kind := vChoose("kind", vC01Kinds)
	// Pre-state profiles (a covering set rather than the full product; the
	// thorough tier uses all of them for every session message type):
	//   0 plain                          3 session exists + application id
	//   1 a session exists               4 no association yet
	//   2 UE-IP pool on, CHOOSE flags    5 UE-IP pool on, no CHOOSE, session exists
	prof := 0
	switch {
	case kind == 4 || kind == 5:
		prof = vChoose("profile", vC01Profiles)
	case kind == 1:
		prof = 4 * vChoose("profile", 2)
	case kind == 6 || kind == 7:
		prof = vChoose("profile", 2)
	case kind == 10:
		prof = 2 * vChoose("profile", 2)
	case kind == 11:
		prof = 1
	}
	alloc := prof == 2 || prof == 5
	sessionExists := prof == 1 || prof == 3 || prof == 5
	chooseFlags := prof == 2
	withApp := prof == 3
	e := vNewEnv(alloc)
	e.pc.maxRetries = 1
	e.dp.fixedCause = 1
	e.u.enableEndMarker = true
	if prof == 4 {
		e.pc.nodeID.remote = ""
	}
	if kind == 0 {
		// a Heartbeat Request also resets the agent's own heartbeat timer: with the
		// timer enabled and the reset channel already full (no monitor draining it,
		// or a burst of peer heartbeats) the receive loop must still not block
		e.u.enableHBTimer = vBool("hb_timer")
		if vBool("hb_reset_backlog_full") {
			e.pc.hbReset = make(chan struct{}, 1)
			e.pc.hbReset <- struct{}{}
		}
	}
	var up uint64
	if sessionExists {
		vTag("after-establishment")
		var ok bool
		up, ok = vEstablishOne(e, 0xc0ffee)
		vAssume(ok)
	}
	var typ uint8
	var top []*vNode
	withSEID := false
	seid := up
	pdrs, fars, qers := vConcreteRules()
	switch kind {
	case 0:
		vTag("heartbeat-request")
		typ = message.MsgTypeHeartbeatRequest
		top = vNodes(ie.NewRecoveryTimeStamp(vTS), ie.NewSourceIPAddress(nil, nil, 0))
	case 1:
		vTag("association-setup-request")
		typ = message.MsgTypeAssociationSetupRequest
		top = vNodes(ie.NewNodeID("", "", "cp.test"), ie.NewRecoveryTimeStamp(vTS), ie.NewCPFunctionFeatures(0))
	case 2:
		vTag("association-release-request")
		typ = message.MsgTypeAssociationReleaseRequest
		top = vNodes(ie.NewNodeID("", "", "cp.test"))
	case 3:
		vTag("pfd-management-request")
		typ = message.MsgTypePFDManagementRequest
		top = vNodes(ie.NewApplicationIDsPFDs(ie.NewApplicationID("app1"),
			ie.NewPFDContext(ie.NewPFDContents("permit out ip from 10.0.0.1 to assigned", "", "", "", "", nil, nil, nil),
				ie.NewPFDContents("permit in ip from any to assigned", "", "", "", "", nil, nil, nil))))
	case 4:
		vTag("session-establishment-request")
		typ = message.MsgTypeSessionEstablishmentRequest
		withSEID, seid = true, 0
		pdrs[0].choose = chooseFlags
		pdrs[1].ueChoose = chooseFlags
		if withApp {
			pdrs[1].appID = "app1"
			e.pc.appPFDs = map[string]appPFD{"app1": {appID: "app1", flowDescs: []string{"permit in ip from 10.0.0.1 to assigned", "permit out ip from any to assigned"}}}
		}
		ies := []*ie.IE{ie.NewNodeID("", "", "cp.test"), vCPFSEID(0xbeef)}
		for _, p := range pdrs {
			ies = append(ies, p.create())
		}
		for _, f := range fars {
			ies = append(ies, f.create())
		}
		for _, q := range qers {
			ies = append(ies, q.create())
		}
		top = vNodes(ies...)
	case 5:
		vTag("session-modification-request")
		typ = message.MsgTypeSessionModificationRequest
		withSEID = true
		u := fars[1]
		u.teid, u.smFlags = 0x9999, 0x02
		np := vPDRSpec{uplink: true, id: 3, prec: 50, teid: 0x4321, n3: [4]byte{198, 18, 0, 1}, ue: [4]byte{10, 250, 0, 5}, farID: 1, qerIDs: []uint32{1, 4}}
		top = vNodes(vCPFSEID(0xbeef2), np.create(), pdrs[1].update(), u.update(), qers[0].update(),
			ie.NewRemovePDR(ie.NewPDRID(1)), ie.NewRemoveFAR(ie.NewFARID(1)), ie.NewRemoveQER(ie.NewQERID(1)))
	case 6:
		vTag("session-deletion-request")
		typ = message.MsgTypeSessionDeletionRequest
		withSEID = true
		top = vNodes(ie.NewNodeID("", "", "cp.test"))
	case 7:
		vTag("session-report-response")
		typ = message.MsgTypeSessionReportResponse
		withSEID = true
		top = vNodes(ie.NewCause(vU8("cause")), ie.NewOffendingIE(ie.Cause))
	case 8:
		vTag("association-setup-response")
		typ = message.MsgTypeAssociationSetupResponse
		top = vNodes(ie.NewNodeID("", "", "cp.test"), ie.NewCause(ie.CauseRequestAccepted), ie.NewRecoveryTimeStamp(vTS))
	case 9:
		vTag("heartbeat-response")
		typ = message.MsgTypeHeartbeatResponse
		top = vNodes(ie.NewRecoveryTimeStamp(vTS))
	case 10:
		// the smallest establishment: one rule of each kind, so that one
		// structural mutation reaches "no PDR", "no FAR", "no QER"
		vTag("session-establishment-request-minimal")
		typ = message.MsgTypeSessionEstablishmentRequest
		withSEID, seid = true, 0
		pdrs[0].choose = chooseFlags
		pdrs[0].qerIDs = []uint32{1}
		top = vNodes(ie.NewNodeID("", "", "cp.test"), vCPFSEID(0xbeef), pdrs[0].create(), fars[0].create(), qers[0].create())
	case 11:
		// a well-formed modification that removes every PDR of the session
		vTag("session-modification-request-removing-all-pdrs")
		typ = message.MsgTypeSessionModificationRequest
		withSEID = true
		top = vNodes(ie.NewRemovePDR(ie.NewPDRID(1)), ie.NewRemovePDR(ie.NewPDRID(2)), qers[0].update())
	}
	if withSEID && kind != 4 && kind != 10 && vBool("unknown_seid") {
		seid = vU64("seid")
	}
	for m := 0; m < vC01Muts; m++ {
		top = vMutate(top, "m")
	}
	before := len(e.conn.writes)
	e.pc.HandlePFCPMsg(vDatagram(typ, withSEID, seid, 0x010203, top))
	vObserve("writes", len(e.conn.writes)-before)
	vAssert("dropped-or-answered-once", len(e.conn.writes)-before <= 1)
	if kind == 2 {
		// association release tears the connection down; nothing further on it
		vCover("released")
		return
	}
	// a valid request afterwards is still processed normally
	before = len(e.conn.writes)
	e.vSend(message.NewHeartbeatRequest(0x333333, ie.NewRecoveryTimeStamp(vTS), nil))
	vAssert("heartbeat-afterwards-answered", len(e.conn.writes) == before+1)
	r := e.vLastReply()
	vAssert("heartbeat-afterwards-correct", r != nil && r.MessageType() == message.MsgTypeHeartbeatResponse && r.Sequence() == 0x333333)
	vCover("survived")
}

var vC01RawLen = 12

// H_C01_raw: arbitrary short datagrams through the real message.Parse and dispatch.
func H_C01_raw() {
	e := vNewEnv(false)
	e.dp.fixedCause = 1
	n := vChoose("len", vC01RawLen+1)
	buf := vBytes("b", n)
	before := len(e.conn.writes)
	e.pc.HandlePFCPMsg(buf)
	vObserve("raw", len(e.conn.writes)-before)
	vAssert("dropped-or-answered-once", len(e.conn.writes)-before <= 1)
	vCover("raw")
}

// vScriptConn: a peer socket that delivers a scripted sequence of datagrams and
// then stays silent (the next read times out).
type vScriptConn struct {
	*vConn
	script [][]byte
	pos    int
}

type vTimeoutErr struct{}

func (vTimeoutErr) Error() string   { return "i/o timeout" }
func (vTimeoutErr) Timeout() bool   { return true }
func (vTimeoutErr) Temporary() bool { return true }

func (c *vScriptConn) Read(b []byte) (int, error) {
	if c.pos >= len(c.script) {
		return 0, vTimeoutErr{}
	}
	d := c.script[c.pos]
	c.pos++
	return copy(b, d), nil
}

// H_C01_serve: the association's real receive loop (PFCPConn.Serve: reader
// goroutine, read deadline, dispatch, time-out -> Shutdown) fed with
// [valid Heartbeat Request, an arbitrary datagram of 0..2 bytes, valid Heartbeat
// Request] and then silence: the short datagram is dropped, BOTH heartbeats are
// answered, and the loop ends through the read time-out, not before.
func H_C01_serve() {
	e := vNewEnv(false)
	n := vChoose("short_datagram_len", 3)
	short := vBytes("short", n)
	hb := func(seq uint32) []byte {
		m := message.NewHeartbeatRequest(seq, ie.NewRecoveryTimeStamp(vTS), nil)
		b := make([]byte, m.MarshalLen())
		_ = m.MarshalTo(b)
		return b
	}
	sc := &vScriptConn{vConn: e.conn, script: [][]byte{hb(0x111111), short, hb(0x222222)}}
	e.pc.Conn = sc
	e.u.readTimeout = 50 * time.Millisecond
	e.pc.Serve()
	vObserve("serve", len(e.conn.writes))
	vAssert("every-datagram-was-read", sc.pos == 3)
	vAssert("both-valid-heartbeats-answered-the-short-datagram-dropped", len(e.conn.writes) == 2)
	for k, want := range []uint32{0x111111, 0x222222} {
		if k < len(e.conn.writes) {
			m, err := message.Parse(e.conn.writes[k])
			vAssert("answers-are-heartbeat-responses-in-order", err == nil && m.MessageType() == message.MsgTypeHeartbeatResponse && m.Sequence() == want)
		}
	}
	vAssert("loop-ended-through-the-read-time-out", len(e.done) == 1 && e.conn.closed == 1)
	vCover("serve")
}

// H_C01_appid: an Application ID that is the provisioned identifier followed by
// 0..2 arbitrary bytes (padding, NUL termination, a longer name): the PDR is
// parsed or refused - the agent neither panics nor exits.
func H_C01_appid() {
	n := vChoose("suffix_len", 3)
	name := "app1" + string(vBytes("suffix", n))
	tbl := map[string]appPFD{
		"app1": {appID: "app1", flowDescs: []string{"permit out ip from 10.1.0.0/16 to assigned"}},
		"app2": {appID: "app2", flowDescs: []string{"permit out ip from any to assigned"}},
	}
	p := pdr{srcIface: access, srcIfaceMask: 0xff, ueAddress: 0x0afa0005}
	err := p.parseApplicationID(ie.NewApplicationID(name), tbl)
	vObserve("appid", err != nil)
	if n == 0 {
		vAssert("provisioned-application-accepted", err == nil)
	}
	vCover("appid")
}
