//go:build verif

package pfcpiface

import (
	"math/rand"

	p4ConfigV1 "github.com/p4lang/p4runtime/go/p4/config/v1"
	p4 "github.com/p4lang/p4runtime/go/p4/v1"
	"github.com/wmnsk/go-pfcp/ie"
	"github.com/wmnsk/go-pfcp/message"
)

// C04 — UP4 tables are exactly the image of the live sessions' rules.

// vRec is a table entry decoded by field and parameter *names* through the P4Info.
type vRec struct {
	match  map[string]uint64 // exact / lpm value / ternary value / range low
	extra  map[string]uint64 // lpm prefix length, ternary mask, range high
	action string
	params map[string]uint64
	prio   int32
}

func vBE(b []byte) uint64 {
	var v uint64
	for _, c := range b {
		v = v<<8 | uint64(c)
	}
	return v
}

func vAlias(name string) string {
	for i := len(name) - 1; i >= 0; i-- {
		if name[i] == '.' {
			return name[i+1:]
		}
	}
	return name
}

func (s *vP4Server) decode(tableAlias string) []vRec {
	var t *p4ConfigV1.Table
	for _, x := range s.info.Tables {
		if vAlias(x.Preamble.Name) == tableAlias {
			t = x
		}
	}
	var out []vRec
	seenKey := map[string]bool{}
	for _, k := range s.order[t.Preamble.Id] {
		e, ok := s.tables[t.Preamble.Id][k]
		if !ok || seenKey[k] {
			continue // deleted, or a key that was inserted again after a delete
		}
		seenKey[k] = true
		r := vRec{match: map[string]uint64{}, extra: map[string]uint64{}, params: map[string]uint64{}, prio: e.Priority}
		for _, m := range e.Match {
			name := ""
			for _, mf := range t.MatchFields {
				if mf.Id == m.FieldId {
					name = mf.Name
				}
			}
			switch x := m.FieldMatchType.(type) {
			case *p4.FieldMatch_Exact_:
				r.match[name] = vBE(x.Exact.Value)
			case *p4.FieldMatch_Lpm:
				r.match[name], r.extra[name] = vBE(x.Lpm.Value), uint64(x.Lpm.PrefixLen)
			case *p4.FieldMatch_Ternary_:
				r.match[name], r.extra[name] = vBE(x.Ternary.Value), vBE(x.Ternary.Mask)
			case *p4.FieldMatch_Range_:
				r.match[name], r.extra[name] = vBE(x.Range.Low), vBE(x.Range.High)
			}
		}
		if e.Action != nil && e.Action.GetAction() != nil {
			a := vFindAction(s.info, e.Action.GetAction().ActionId)
			if a != nil {
				r.action = vAlias(a.Preamble.Name)
				for _, p := range e.Action.GetAction().Params {
					for _, ap := range a.Params {
						if ap.Id == p.ParamId {
							r.params[ap.Name] = vBE(p.Value)
						}
					}
				}
			}
		}
		out = append(out, r)
	}
	return out
}

func vHas(m map[string]uint64, k string) bool { _, ok := m[k]; return ok }

// vFilterOf: the application filter a PDR denotes on UP4 (remote side).
func vFilterOf(p pdr) (ip uint32, mask uint32, ports portRange, proto, protoMask uint8) {
	if p.srcIface == access {
		return p.appFilter.dstIP, p.appFilter.dstIPMask, p.appFilter.dstPortRange, p.appFilter.proto, p.appFilter.protoMask
	}
	return p.appFilter.srcIP, p.appFilter.srcIPMask, p.appFilter.srcPortRange, p.appFilter.proto, p.appFilter.protoMask
}

func vPrefixLenOf(mask uint32) uint64 {
	n := uint64(0)
	for m := mask; m&0x80000000 != 0; m <<= 1 {
		n++
	}
	return n
}

// vFindApp returns the applications-table records matching the PDR's filter.
func vFindApp(apps []vRec, p pdr, slice uint8) []vRec {
	ip, mask, ports, proto, pm := vFilterOf(p)
	var out []vRec
	for _, a := range apps {
		if a.match["slice_id"] != uint64(slice) {
			continue
		}
		pl := vPrefixLenOf(mask)
		if pl > 0 {
			if !vHas(a.match, "app_ip_addr") || a.match["app_ip_addr"] != uint64(ip) || a.extra["app_ip_addr"] != pl {
				continue
			}
		} else if vHas(a.match, "app_ip_addr") {
			continue
		}
		if !ports.isWildcardMatch() {
			if !vHas(a.match, "app_l4_port") || a.match["app_l4_port"] != uint64(ports.low) || a.extra["app_l4_port"] != uint64(ports.high) {
				continue
			}
		} else if vHas(a.match, "app_l4_port") {
			continue
		}
		if proto != 0 && pm != 0 {
			if !vHas(a.match, "app_ip_proto") || a.match["app_ip_proto"] != uint64(proto) {
				continue
			}
		} else if vHas(a.match, "app_ip_proto") {
			continue
		}
		out = append(out, a)
	}
	return out
}

type vUP4Cfg struct {
	slice, defaultTC uint8
	qfiToTC          map[uint8]uint8
}

// vCheckUP4Image compares the target's tables with what the live rules in the
// agent's session store denote.
func vCheckUP4Image(sessions []PFCPSession, srv *vP4Server, cfg vUP4Cfg, tag string) int {
	su, sd := srv.decode("sessions_uplink"), srv.decode("sessions_downlink")
	tu, td := srv.decode("terminations_uplink"), srv.decode("terminations_downlink")
	apps, peers := srv.decode("applications"), srv.decode("tunnel_peers")
	wantSU, wantSD, wantTU, wantTD := map[[2]uint64]bool{}, map[uint64]bool{}, map[[2]uint64]bool{}, map[[2]uint64]bool{}
	wantApps, wantPeers, allowedPeers := map[[6]uint64]bool{}, map[uint64]bool{}, map[uint64]bool{}
	liveCells := 0
	for _, s := range sessions {
		for _, f := range s.fars {
			if f.Forwards() && f.dstIntf == ie.DstInterfaceAccess && f.tunnelTEID != 0 {
				wantPeers[uint64(f.tunnelIP4Dst)] = true
			}
			// a FAR that currently buffers or drops still carries its peer's
			// address: whether its tunnel_peers entry exists depends on whether the
			// FAR ever forwarded, which the statement leaves open - allowed, not required
			if f.dstIntf == ie.DstInterfaceAccess && f.tunnelTEID != 0 {
				allowedPeers[uint64(f.tunnelIP4Dst)] = true
			}
		}
		for _, q := range s.qers {
			switch {
			case q.qosLevel == SessionQos:
				liveCells += 2
			case len(s.qers) == 1:
				liveCells += 2
			default:
				liveCells++
			}
		}
		// the UE address of the session (from its downlink PDR)
		var ue uint32
		for _, p := range s.pdrs {
			if p.srcIface == core {
				ue = p.ueAddress
			}
		}
		for _, p := range s.pdrs {
			var f far
			for _, x := range s.fars {
				if x.farID == p.farID {
					f = x
				}
			}
			var q qer
			hasQ := false
			if len(p.qerIDList) > 0 {
				for _, x := range s.qers {
					if x.qerID == p.qerIDList[0] && !hasQ {
						q, hasQ = x, true
					}
				}
			}
			tc, ok := cfg.qfiToTC[q.qfi]
			if !ok {
				tc = cfg.defaultTC
			}
			appID := uint64(0)
			if !p.IsAppFilterEmpty() {
				ip, mask, ports, proto, pm := vFilterOf(p)
				wantApps[[6]uint64{uint64(ip), uint64(mask), uint64(ports.low), uint64(ports.high), uint64(proto), uint64(pm)}] = true
				found := vFindApp(apps, p, cfg.slice)
				vAssert(tag+":applications-entry-for-the-pdr's-filter-exists-once", len(found) == 1)
				vAssert(tag+":applications-entry-sets-an-app-id", found[0].action == "set_app_id" && found[0].params["app_id"] != 0)
				vAssert(tag+":applications-priority-orders-as-precedence", found[0].prio > 0)
				appID = found[0].params["app_id"]
			}
			if p.srcIface == access {
				wantSU[[2]uint64{uint64(p.tunnelIP4Dst), uint64(p.tunnelTEID)}] = true
				wantTU[[2]uint64{uint64(ue), appID}] = true
				n := 0
				for _, r := range su {
					if r.match["n3_address"] == uint64(p.tunnelIP4Dst) && r.match["teid"] == uint64(p.tunnelTEID) {
						n++
						vAssert(tag+":sessions_uplink-action", r.action == "set_session_uplink")
					}
				}
				vAssert(tag+":sessions_uplink-entry-under-n3-address-and-teid", n == 1)
				n = 0
				for _, r := range tu {
					if r.match["ue_address"] == uint64(ue) && r.match["app_id"] == appID {
						n++
						if f.Drops() || q.ulStatus == ie.GateStatusClosed {
							vAssert(tag+":uplink-termination-drops(FAR-drop-or-gate-closed)", r.action == "uplink_term_drop")
						} else {
							vAssert(tag+":uplink-termination-forwards", r.action == "uplink_term_fwd")
							vAssert(tag+":uplink-termination-traffic-class", r.params["tc"] == uint64(tc))
						}
					}
				}
				vAssert(tag+":terminations_uplink-entry-under-ue-address-and-app-id", n == 1)
			} else {
				wantSD[uint64(p.ueAddress)] = true
				wantTD[[2]uint64{uint64(p.ueAddress), appID}] = true
				n := 0
				for _, r := range sd {
					if r.match["ue_address"] == uint64(p.ueAddress) {
						n++
						if f.Buffers() {
							vAssert(tag+":sessions_downlink-buffers(FAR-buffer)", r.action == "set_session_downlink_buff")
						} else {
							vAssert(tag+":sessions_downlink-action", r.action == "set_session_downlink")
							if f.tunnelTEID != 0 {
								m := 0
								for _, pr := range peers {
									if pr.params["dst_addr"] == uint64(f.tunnelIP4Dst) {
										m++
										vAssert(tag+":downlink-session-uses-the-peer-carrying-the-FAR's-address", r.params["tunnel_peer_id"] == pr.match["tunnel_peer_id"])
										vAssert(tag+":tunnel-peer-parameters", pr.action == "load_tunnel_param" && pr.params["src_addr"] == 0xc6120001 && pr.params["sport"] == 2152)
									}
								}
								vAssert(tag+":one-tunnel_peers-entry-for-the-FAR's-peer", m == 1)
							}
						}
					}
				}
				vAssert(tag+":sessions_downlink-entry-under-ue-address", n == 1)
				n = 0
				for _, r := range td {
					if r.match["ue_address"] == uint64(p.ueAddress) && r.match["app_id"] == appID {
						n++
						if f.Drops() || q.dlStatus == ie.GateStatusClosed {
							vAssert(tag+":downlink-termination-drops(FAR-drop-or-gate-closed)", r.action == "downlink_term_drop")
						} else {
							vAssert(tag+":downlink-termination-forwards", r.action == "downlink_term_fwd")
							vAssert(tag+":downlink-termination-teid-is-the-FAR's", r.params["teid"] == uint64(f.tunnelTEID))
							wantQFI := uint64(DefaultQFI)
							if hasQ {
								wantQFI = uint64(q.qfi)
							}
							vAssert(tag+":downlink-termination-qfi-is-the-QER's", r.params["qfi"] == wantQFI)
							if hasQ {
								vAssert(tag+":downlink-termination-traffic-class", r.params["tc"] == uint64(tc))
							}
						}
					}
				}
				vAssert(tag+":terminations_downlink-entry-under-ue-address-and-app-id", n == 1)
			}
		}
	}
	vAssert(tag+":nothing-else-in-sessions_uplink", len(su) == len(wantSU))
	vAssert(tag+":nothing-else-in-sessions_downlink", len(sd) == len(wantSD))
	vAssert(tag+":nothing-else-in-terminations_uplink", len(tu) == len(wantTU))
	vAssert(tag+":nothing-else-in-terminations_downlink", len(td) == len(wantTD))
	vAssert(tag+":applications-entry-iff-a-live-rule-uses-it", len(apps) == len(wantApps))
	vAssert(tag+":tunnel_peers-entry-for-every-peer-a-forwarding-rule-uses", len(peers) >= len(wantPeers))
	seenPeer := map[uint64]bool{}
	for _, pr := range peers {
		vAssert(tag+":no-tunnel_peers-entry-without-a-live-rule-naming-the-peer", allowedPeers[pr.params["dst_addr"]])
		vAssert(tag+":one-tunnel_peers-entry-per-distinct-peer", !seenPeer[pr.params["dst_addr"]])
		seenPeer[pr.params["dst_addr"]] = true
	}
	vAssert(tag+":interfaces-table-holds-n3-and-ue-pool", srv.entries(vTableID(srv.info, "interfaces")) == 2)
	configured := 0
	for _, c := range srv.meters {
		if c != nil {
			configured++
		}
	}
	vAssert(tag+":meter-cells-configured-only-for-live-QERs", configured == liveCells)
	return liveCells
}

func vTableID(info *p4ConfigV1.P4Info, alias string) uint32 {
	for _, t := range info.Tables {
		if vAlias(t.Preamble.Name) == alias {
			return t.Preamble.Id
		}
	}
	return 0
}

// ---------------------------------------------------------------------------

type vUP4Stack struct {
	e   *vEnv
	env *vUP4Env
	cfg vUP4Cfg
}

// vNewUP4Stack: real PFCP handlers on the real UP4 plug-in on the in-harness target.
func vNewUP4Stack(cells int64) *vUP4Stack {
	vConcreteClock(1000000) // time is not the subject of the harnesses built on this stack
	cfg := vUP4Cfg{slice: 15, defaultTC: 3, qfiToTC: map[uint8]uint8{5: 0}} // QFI 5 explicitly mapped to class 0 (the map's zero value), QFI 9 unmapped
	if vC04Rich != 0 {
		cfg = vUP4Cfg{slice: uint8(vChoose("slice_id", 2) * 15), defaultTC: uint8(vChoose("default_tc", 2) * 3)}
		cfg.qfiToTC = map[uint8]uint8{5: uint8(vChoose("tc_of_qfi5", 4))}
	}
	env := vNewUP4(cells, cfg.slice, cfg.defaultTC, cfg.qfiToTC)
	e := vNewEnv(false)
	e.pc.rng = rand.New(&vRandSource{counter: true})
	e.pc.maxRetries = 2
	e.u.datapath = env.up4
	e.u.accessIP = env.up4.accessIP.IP
	if err := env.up4.initInterfaces(); err != nil {
		panic("harness: initInterfaces failed")
	}
	return &vUP4Stack{e, env, cfg}
}

var vGNBs = [][4]byte{{198, 18, 0, 9}, {198, 18, 0, 10}}
var vC04FilterMix = 0 // 1: sessions may mix an application-filtered PDR with a default one (H_C04_history)

var vSDFs = []string{"", "permit out ip from 10.1.0.0/16 80-90 to assigned", "permit out udp from 8.8.8.8 53 to assigned"}

// vSessionRules: the rules of session k (k = 0, 1) with shared or unshared
// gNB peer and application filter.
func vSessionRules(k int) ([]vPDRSpec, []vFARSpec, []vQERSpec) {
	ue := [4]byte{10, 250, 0, byte(5 + k)}
	sdf := vSDFs[vChoose("app_filter", len(vSDFs))]
	gnb := vGNBs[vChoose("gnb", len(vGNBs))]
	// QoS profile: (QFI, gate byte, session QER?) - a covering set in the quick
	// tier, the full product in the thorough tier
	qfi, gate, sessQ := uint8(9), uint8(0), false
	if vC04Rich != 0 {
		qfi = []uint8{9, 5}[vChoose("qfi", 2)]
		gate = uint8(vChoose("gate", 4)) * 5 & 0xf
		sessQ = vBool("with_session_qer")
	} else if vC04QosFixed != 0 {
		qfi, gate, sessQ = 5, 0, true
	} else {
		switch vChoose("qos_profile", 3) {
		case 1:
			qfi, gate, sessQ = 5, 0x4, true // mapped QFI, uplink gate closed, session QER
		case 2:
			qfi, gate, sessQ = 9, 0x1, false // downlink gate closed
		}
	}
	up := vPDRSpec{uplink: true, id: 1, prec: 100, teid: uint32(0x1000 + k), n3: [4]byte{198, 18, 0, 1}, ue: ue, farID: 11, qerIDs: []uint32{1}, sdf: sdf}
	dn := vPDRSpec{uplink: false, id: 2, prec: 100, ue: ue, farID: 12, qerIDs: []uint32{1}, sdf: sdf}
	// an application-filtered PDR may be followed by a default ("match all") one
	// of the same session, and the other way round
	if sdf != "" && vC04FilterMix != 0 {
		switch vChoose("filter_mix", 3) {
		case 1:
			dn.sdf = ""
		case 2:
			up.sdf = ""
		}
	}
	// FAR ids deliberately differ from the ids of the PDRs that use them
	fu := vFARSpec{id: 11, action: ActionForward, uplink: true}
	fd := vFARSpec{id: 12, action: ActionForward, uplink: false, teid: uint32(0x5000 + k), peer: gnb}
	qs := []vQERSpec{{id: 1, qfi: qfi, gate: gate, ulMbr: 1000, dlMbr: 2000}}
	if sessQ {
		up.qerIDs, dn.qerIDs = []uint32{1, 4}, []uint32{1, 4}
		qs = append(qs, vQERSpec{id: 4, qfi: 0, gate: 0, ulMbr: 50000, dlMbr: 50000})
	}
	return []vPDRSpec{up, dn}, []vFARSpec{fu, fd}, qs
}

var vC04Steps = 2
var vC04Rich = 0
var vC04QosFixed = 0

// H_C04_history: establish / modify / delete over up to two sessions.
func H_C04_history() {
	st := vNewUP4Stack(16)
	e := st.e
	var seids [2]uint64
	var live [2]bool
	var fars [2][]vFARSpec
	seq := uint32(1)
	check := func(tag string) {
		liveCells := vCheckUP4Image(e.pc.store.GetAllSessions(), st.env.srv, st.cfg, tag)
		// every meter cell is either free (in one of the two pools) or configured for a live QER
		u := st.env.up4
		vAssert(tag+":meter-cells-free-plus-live-is-the-whole-array", vSetCard(u.appMeterCellIDsPool)+vSetCard(u.sessMeterCellIDsPool)+liveCells == 2*(16-1))
		// ... and every counter cell is free or carried by one live PDR
		livePDRs := 0
		for _, s := range e.pc.store.GetAllSessions() {
			livePDRs += len(s.pdrs)
		}
		vAssert(tag+":counter-cells-free-plus-live-is-the-whole-array", vSetCard(u.counters[preQosCounterID].counterIDsPool)+livePDRs == 16)
	}
	establish := func(k int) bool {
		p, f, q := vSessionRules(k)
		fars[k] = f
		seq++
		e.vSend(vEstablishment(seq, uint64(0xc0+k), "cp.test", p, f, q))
		r, ok := e.vLastReply().(*message.SessionEstablishmentResponse)
		if !ok || vCauseOf(r.Cause) != ie.CauseRequestAccepted {
			return false
		}
		fs, _ := r.UPFSEID.FSEID()
		seids[k], live[k] = fs.SEID, true
		return true
	}
	vAssert("first-establishment-accepted", establish(0))
	vCover("established")
	check("after-establishment")
	for step := 0; step < vC04Steps; step++ {
		switch vChoose("step", 4) {
		case 0:
			vTag("second-session")
			if live[1] {
				return
			}
			vAssert("second-establishment-accepted", establish(1))
			vCover("two-sessions")
			check("after-second-establishment")
		case 1:
			vTag("update-far")
			k := vChoose("which", 2)
			if !live[k] {
				return
			}
			u := fars[k][1]
			u.noOHC = false
			switch vChoose("far_change", 5) {
			case 4:
				// the UE goes idle: buffer, and the update names no tunnel any more
				u.action = ActionBuffer | ActionNotify
				u.noOHC = true
			case 0:
				u.peer = vGNBs[vChoose("new_gnb", len(vGNBs))]
				u.teid = 0x7000 + uint32(k)
			case 1:
				u.action = ActionBuffer | ActionNotify
			case 2:
				u.action = ActionDrop
			case 3:
				u.action = ActionForward
			}
			fars[k][1] = u
			seq++
			e.vSend(message.NewSessionModificationRequest(0, 0, seids[k], seq, 0, u.update()))
			m, ok := e.vLastReply().(*message.SessionModificationResponse)
			vAssert("modification-answered", ok)
			if vCauseOf(m.Cause) != ie.CauseRequestAccepted {
				vCover("modification-rejected")
				return
			}
			vCover("modified")
			check("after-modification")
		case 2:
			vTag("delete")
			k := vChoose("which", 2)
			if !live[k] {
				return
			}
			seq++
			e.vSend(vDeletion(seq, seids[k]))
			d, ok := e.vLastReply().(*message.SessionDeletionResponse)
			vAssert("deletion-accepted", ok && vCauseOf(d.Cause) == ie.CauseRequestAccepted)
			live[k] = false
			vCover("deleted")
			check("after-deletion")
		case 3:
			vTag("unknown-session")
			n0 := len(st.env.srv.log)
			seq++
			e.vSend(vDeletion(seq, 0xdead))
			vAssert("unknown-session-writes-nothing", len(st.env.srv.log) == n0)
		}
	}
}

// H_C04_restart: whatever a previous incarnation left in the switch is
// cleared at start-up and the interfaces table is re-initialised.
func H_C04_restart() {
	st := vNewUP4Stack(16)
	e := st.e
	// a previous incarnation: no, one or two sessions - the first one possibly idle
	// (its downlink FAR buffers and names no tunnel, so no tunnel peer is left) -
	// then the agent dies. Some tables are populated, others empty.
	nsess := vChoose("sessions_left_behind", 3)
	if nsess >= 1 {
		p, f, q := vSessionRules(0)
		e.vSend(vEstablishment(2, 0xc0, "cp.test", p, f, q))
		if vBool("first_session_idle") {
			r, ok := e.vLastReply().(*message.SessionEstablishmentResponse)
			vAssume(ok && vCauseOf(r.Cause) == ie.CauseRequestAccepted)
			fs, _ := r.UPFSEID.FSEID()
			u := f[1]
			u.action, u.noOHC = ActionBuffer|ActionNotify, true
			e.vSend(message.NewSessionModificationRequest(0, 0, fs.SEID, 4, 0, u.update()))
		}
	}
	if nsess >= 2 {
		p, f, q := vSessionRules(1)
		e.vSend(vEstablishment(3, 0xc1, "cp.test", p, f, q))
	}
	// new incarnation against the same, still populated switch
	st2 := vNewUP4(16, st.cfg.slice, st.cfg.defaultTC, st.cfg.qfiToTC)
	st2.up4.p4client.client = st.env.srv // same target
	st2.srv = st.env.srv
	err := st2.up4.initialize(true)
	vAssert("start-up-initialisation-succeeds", err == nil)
	for _, t := range []string{"sessions_uplink", "sessions_downlink", "terminations_uplink", "terminations_downlink", "applications", "tunnel_peers"} {
		vAssert("left-over-entries-cleared:"+t, st.env.srv.entries(vTableID(st.env.srv.info, t)) == 0)
	}
	vAssert("interfaces-re-initialised", st.env.srv.entries(vTableID(st.env.srv.info, "interfaces")) == 2)
	vCover("restarted")
}
