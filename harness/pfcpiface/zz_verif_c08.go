//go:build verif

package pfcpiface

import (
	"net"
	"strconv"
	"strings"

	"github.com/wmnsk/go-pfcp/ie"
	"github.com/wmnsk/go-pfcp/message"
)

// C08 — SDF filters and PFD-backed application IDs mean what they say.

type vRefNetT struct {
	ok       bool
	ip, mask uint32
}

// vRefNet: any | assigned | IPv4[/len], read with the same standard-library
// functions the agent uses (their character-level behaviour is trusted).
func vRefNet(tok string, ue uint32) vRefNetT {
	switch tok {
	case "any":
		return vRefNetT{true, 0, 0}
	case "assigned":
		if ue == 0 {
			return vRefNetT{true, 0, 0}
		}
		return vRefNetT{true, ue, 0xffffffff}
	}
	parts := strings.Split(tok, "/")
	var n *net.IPNet
	var err error
	switch len(parts) {
	case 1:
		_, n, err = net.ParseCIDR(tok + "/32")
	case 2:
		_, n, err = net.ParseCIDR(tok)
	default:
		return vRefNetT{}
	}
	if err != nil || len(n.IP) != 4 {
		return vRefNetT{}
	}
	ip := uint32(n.IP[0])<<24 | uint32(n.IP[1])<<16 | uint32(n.IP[2])<<8 | uint32(n.IP[3])
	m := uint32(n.Mask[0])<<24 | uint32(n.Mask[1])<<16 | uint32(n.Mask[2])<<8 | uint32(n.Mask[3])
	return vRefNetT{true, ip, m}
}

type vRefPortT struct {
	ok     bool
	lo, hi uint16
}

func vRefPort(tok string) vRefPortT {
	parts := strings.Split(tok, "-")
	if len(parts) == 1 {
		v, err := strconv.ParseUint(tok, 10, 16)
		if err != nil {
			return vRefPortT{}
		}
		return vRefPortT{true, uint16(v), uint16(v)}
	}
	if len(parts) != 2 {
		return vRefPortT{}
	}
	lo, err := strconv.ParseUint(parts[0], 10, 16)
	if err != nil {
		return vRefPortT{}
	}
	hi, err := strconv.ParseUint(parts[1], 10, 16)
	if err != nil || lo > hi {
		return vRefPortT{}
	}
	return vRefPortT{true, uint16(lo), uint16(hi)}
}

func vRefProto(tok string) uint8 {
	if v, err := strconv.ParseUint(tok, 10, 8); err == nil {
		return uint8(v)
	}
	switch tok {
	case "udp":
		return 17
	case "tcp":
		return 6
	}
	return reservedProto // "ip" and anything else: no protocol match
}

// vRefRule is the meaning of a sentence of the supported grammar:
//   (permit|deny) (in|out) proto from NET [PORT] to NET [PORT]
type vRefRule struct {
	sentence     bool
	proto        uint8
	src, dst     vRefNetT
	sport, dport vRefPortT // ok=false: no port written (wildcard)
}

func vRecognise(t []string, ue uint32) vRefRule {
	var r vRefRule
	n := len(t)
	if n < 7 || n > 9 {
		return r
	}
	if t[0] != "permit" && t[0] != "deny" {
		return r
	}
	if t[1] != "in" && t[1] != "out" {
		return r
	}
	r.proto = vRefProto(t[2])
	if t[3] != "from" {
		return r
	}
	r.src = vRefNet(t[4], ue)
	if !r.src.ok {
		return r
	}
	k := 5
	if t[k] != "to" {
		r.sport = vRefPort(t[k])
		if !r.sport.ok {
			return r
		}
		k++
	}
	if k >= n || t[k] != "to" {
		return r
	}
	k++
	if k >= n {
		return r
	}
	r.dst = vRefNet(t[k], ue)
	if !r.dst.ok {
		return r
	}
	k++
	if k < n {
		r.dport = vRefPort(t[k])
		if !r.dport.ok {
			return r
		}
		k++
	}
	if k != n {
		return r
	}
	r.sentence = true
	return r
}

func vNetOf(n *net.IPNet) (uint32, uint32) {
	return ip2int(n.IP), ipMask2int(n.Mask)
}

func vPortsEq(pr portRange, p vRefPortT) bool {
	if !p.ok {
		return vAnd(pr.low == 0, pr.high == 65535)
	}
	return vAnd(pr.low == p.lo, pr.high == p.hi)
}

func vHasKeyword(t []string, kw string) bool {
	r := false
	for k := 3; k < len(t); k++ {
		r = vOr(r, t[k] == kw)
	}
	return r
}

func vUEString(ue uint32) string { return int2ip(ue).String() }

// H_C08_flow: parseFlowDesc on an arbitrary token sequence.
func H_C08_flow() {
	fd := vStr("flow")
	ue := vU32("ue")
	toks := strings.Fields(fd)
	ref := vRecognise(toks, ue)
	ipf, err := parseFlowDesc(fd, vUEString(ue))
	vObserve("flow", len(toks), err != nil, ref.sentence)
	if ref.sentence {
		vCover("sentence")
		vAssert("sentence-is-accepted", err == nil)
		sip, sm := vNetOf(ipf.src.IPNet)
		dip, dm := vNetOf(ipf.dst.IPNet)
		vAssert("src-net-as-written", vAnd(sip == ref.src.ip&ref.src.mask, sm == ref.src.mask))
		vAssert("dst-net-as-written", vAnd(dip == ref.dst.ip&ref.dst.mask, dm == ref.dst.mask))
		vAssert("src-ports-as-written", vPortsEq(ipf.src.ports, ref.sport))
		vAssert("dst-ports-as-written", vPortsEq(ipf.dst.ports, ref.dport))
		vAssert("proto-as-written", ipf.proto == ref.proto)
		vAssert("action-direction-kept", vAnd(ipf.action == toks[0], ipf.direction == toks[1]))
		return
	}
	if err != nil {
		vCover("refused")
		vAssert("refused-returns-no-rule", ipf == nil)
		return
	}
	// accepted although not a sentence of the canonical grammar (reversed
	// endpoint order, trailing tokens): it must at least have both endpoints,
	// and ranges are never inverted
	vCover("accepted-non-canonical")
	vAssert("accepted-text-has-both-keywords", vAnd(vHasKeyword(toks, "from"), vHasKeyword(toks, "to")))
	vAssert("accepted-has-both-endpoints", ipf.src.IPNet != nil && ipf.dst.IPNet != nil)
	vAssert("accepted-ranges-not-inverted", vAnd(ipf.src.ports.low <= ipf.src.ports.high, ipf.dst.ports.low <= ipf.dst.ports.high))
	vAssert("accepted-action-direction-valid", vAnd(vOr(toks[0] == "permit", toks[0] == "deny"), vOr(toks[1] == "in", toks[1] == "out")))
}

// H_C08_sdf: the PDR filter produced from an inline SDF filter.
func H_C08_sdf() {
	fd := vStr("flow")
	ue := vU32("ue")
	vAssume(ue != 0)
	iface := uint8(core)
	if vBool("uplink") {
		iface = access
	}
	var sdf *ie.IE
	if vInEngine() {
		sdf = ie.NewSDFFilter("x", "", "", "", 1)
		vOverride("(*github.com/wmnsk/go-pfcp/ie.IE).SDFFilter", func(i *ie.IE) (*ie.SDFFilterFields, error) {
			return &ie.SDFFilterFields{Flags: 1, FlowDescription: fd}, nil
		})
	} else {
		sdf = ie.NewSDFFilter(fd, "", "", "", 1)
	}
	toks := strings.Fields(fd)
	ref := vRecognise(toks, ue)
	p := pdr{srcIface: iface, srcIfaceMask: 0xff, ueAddress: ue}
	// UE-address pre-fill as parsePDI does it
	if iface == core {
		p.appFilter.dstIP, p.appFilter.dstIPMask = ue, 0xffffffff
	} else {
		p.appFilter.srcIP, p.appFilter.srcIPMask = ue, 0xffffffff
	}
	pre := p.appFilter
	err := p.parseSDFFilter(sdf)
	af := p.appFilter
	vObserve("sdf", err != nil, ref.sentence)
	if err != nil {
		vCover("sdf-refused")
		vAssert("refused-is-bad-filter-error-or-empty", vOr(err == errBadFilterDesc, len(toks) == 0))
		vAssert("refused-keeps-ue-address-prefill", af == pre)
		vAssert("sentence-never-refused", !ref.sentence)
		return
	}
	if !ref.sentence {
		vCover("sdf-accepted-non-canonical")
		return
	}
	vCover("sdf-sentence")
	// protocol
	vAssert("proto", vOr(vAnd(ref.proto == reservedProto, af.protoMask == 0), vAnd(af.proto == ref.proto, af.protoMask == 0xff)))
	// endpoints oriented by the PDR's source interface:
	//   core (downlink):  packet source = "from", packet destination = "to"
	//   access (uplink):  swapped
	fromIP, fromM := ref.src.ip&ref.src.mask, ref.src.mask
	toIP, toM := ref.dst.ip&ref.dst.mask, ref.dst.mask
	if iface == core {
		vAssert("core:src=from", vAnd(af.srcIP == fromIP, af.srcIPMask == fromM))
		vAssert("core:dst=to", vAnd(af.dstIP == toIP, af.dstIPMask == toM))
	} else {
		vAssert("access:src=to", vAnd(af.srcIP == toIP, af.srcIPMask == toM))
		vAssert("access:dst=from", vAnd(af.dstIP == fromIP, af.dstIPMask == fromM))
	}
	// ports (the workaround the code documents): the UE-side range is always the
	// wildcard; the remote-side range is the one written after the "to"
	// endpoint if there is a non-wildcard one, otherwise the one after "from"
	remote, ueSide := af.srcPortRange, af.dstPortRange
	if iface == access {
		remote, ueSide = af.dstPortRange, af.srcPortRange
	}
	// ("wildcard" in the documented sense: 0-65535 or the zero value 0-0)
	vAssert("ue-side-ports-wildcard", refIsWild(ueSide.low, ueSide.high))
	toWild := vOr(!ref.dport.ok, refIsWild(ref.dport.lo, ref.dport.hi))
	wantLo := vIteU16(toWild, vIteU16(ref.sport.ok, ref.sport.lo, 0), ref.dport.lo)
	wantHi := vIteU16(toWild, vIteU16(ref.sport.ok, ref.sport.hi, 65535), ref.dport.hi)
	vAssert("remote-side-ports-as-written", vOr(vAnd(remote.low == wantLo, remote.high == wantHi),
		vAnd(refIsWild(wantLo, wantHi), refIsWild(remote.low, remote.high))))
}

// ---------------------------------------------------------------------------
// PFD management and application IDs

var vPFDFlows = []string{
	"permit out ip from 10.1.0.0/16 to assigned",
	"permit in ip from 10.2.0.0/16 80 to assigned",
	"permit out udp from any to assigned 53",
	"permit in tcp from 192.168.7.7 to assigned 8000-8080",
	"bogus",
}

// H_C08_pfdtable: an accepted PFD Management Request replaces the whole
// application table; a rejected one leaves the previous table intact.
func H_C08_pfdtable() {
	e := vNewEnv(false)
	old := map[string]appPFD{"old": {appID: "old", flowDescs: []string{"permit out ip from 10.9.9.9 to assigned"}}}
	e.pc.appPFDs = old
	napps := vChoose("napps", 3) // 0: the control plane withdraws every application (the table must end up empty)
	var apps []*ie.IE
	var wantIDs []string
	var wantFlows [][]string
	bad := false
	for a := 0; a < napps; a++ {
		id := "app" + string(rune('A'+a))
		nfl := 1 + vChoose("nflows", 2)
		var ctx []*ie.IE
		var flows []string
		for f := 0; f < nfl; f++ {
			switch vChoose("flowkind", 3) {
			case 0:
				k := vChoose("flow", len(vPFDFlows))
				ctx = append(ctx, ie.NewPFDContents(vPFDFlows[k], "", "", "", "", nil, nil, nil))
				flows = append(flows, vPFDFlows[k])
			case 1:
				// PFD contents without a flow description
				ctx = append(ctx, ie.NewPFDContents("", "", "example.org", "", "", nil, nil, nil))
				bad = true
			case 2:
				// truncated PFD contents (flags say a flow description follows; it does not)
				ctx = append(ctx, ie.New(ie.PFDContents, []byte{0x01, 0x00, 0x00, 0x20, 'p'}))
				bad = true
			}
		}
		kids := []*ie.IE{ie.NewPFDContext(ctx...)}
		if vBool("drop_app_id") {
			bad = true
		} else {
			kids = append([]*ie.IE{ie.NewApplicationID(id)}, kids...)
		}
		apps = append(apps, ie.NewApplicationIDsPFDs(kids...))
		wantIDs = append(wantIDs, id)
		wantFlows = append(wantFlows, flows)
	}
	before := len(e.conn.writes)
	e.vSend(message.NewPFDManagementRequest(0x42, apps...))
	r := e.vExpectReply("pfd", before, message.MsgTypePFDManagementResponse, 0x42).(*message.PFDManagementResponse)
	c := vCauseOf(r.Cause)
	vObserve("pfd", c, len(e.pc.appPFDs))
	if c != ie.CauseRequestAccepted {
		vCover("pfd-rejected")
		vAssert("rejected-only-if-malformed", bad)
		_, hasOld := e.pc.appPFDs["old"]
		vAssert("rejected:previous-table-intact", len(e.pc.appPFDs) == 1 && hasOld && len(e.pc.appPFDs["old"].flowDescs) == 1)
		return
	}
	vCover("pfd-accepted")
	vAssert("accepted-only-if-well-formed", !bad)
	_, hasOld := e.pc.appPFDs["old"]
	vAssert("accepted:table-replaced", !hasOld && len(e.pc.appPFDs) == len(wantIDs))
	for a, id := range wantIDs {
		got, ok := e.pc.appPFDs[id]
		vAssert("accepted:app-present", ok && got.appID == id && len(got.flowDescs) == len(wantFlows[a]))
		for f := range wantFlows[a] {
			vAssert("accepted:flows-verbatim-in-order", got.flowDescs[f] == wantFlows[a][f])
		}
	}
}

// H_C08_appid: the filter of a PDR that names an application ID is, verbatim,
// the first provisioned flow description whose direction keyword is the one
// tied to the PDR's direction (uplink: out, downlink: in).
func H_C08_appid() {
	ue := vU32("ue")
	vAssume(ue != 0)
	iface := uint8(core)
	want := "in"
	if vBool("uplink") {
		iface, want = access, "out"
	}
	// a table of 2 applications x up to 3 flow descriptions drawn from the list
	n := 1 + vChoose("nflows", 3)
	var flows []string
	for k := 0; k < n; k++ {
		flows = append(flows, vPFDFlows[vChoose("flow", len(vPFDFlows))])
	}
	tbl := map[string]appPFD{"app1": {appID: "app1", flowDescs: flows}, "app2": {appID: "app2", flowDescs: []string{vPFDFlows[0]}}}
	mk := func() pdr {
		p := pdr{srcIface: iface, srcIfaceMask: 0xff, ueAddress: ue}
		if iface == core {
			p.appFilter.dstIP, p.appFilter.dstIPMask = ue, 0xffffffff
		} else {
			p.appFilter.srcIP, p.appFilter.srcIPMask = ue, 0xffffffff
		}
		return p
	}
	p := mk()
	pre := p.appFilter
	unknown := vBool("unknown_app")
	name := "app1"
	if unknown {
		name = "nosuch"
	}
	err := p.parseApplicationID(ie.NewApplicationID(name), tbl)
	vObserve("appid", err != nil)
	if unknown {
		vCover("unknown-app")
		vAssert("unknown-application-refused", err != nil && err != errBadFilterDesc)
		vAssert("unknown-application-leaves-filter", p.appFilter == pre)
		return
	}
	// reference: walk the flows in order
	var chosen *ipFilterRule
	broken := false
	for _, f := range flows {
		r, perr := parseFlowDesc(f, int2ip(ue).String())
		if perr != nil {
			broken = true
			break
		}
		if r.direction == want {
			chosen = r
			break
		}
	}
	switch {
	case broken:
		vCover("bad-flow-in-table")
		vAssert("bad-flow:bad-filter-error", err == errBadFilterDesc)
		vAssert("bad-flow:filter-is-ue-address-only", p.appFilter == pre)
	case chosen == nil:
		vCover("no-matching-direction")
		vAssert("no-match:no-error", err == nil)
		vAssert("no-match:filter-is-ue-address-only", p.appFilter == pre)
	default:
		vCover("matched")
		vAssert("match:no-error", err == nil)
		af := p.appFilter
		sip, sm := vNetOf(chosen.src.IPNet)
		dip, dm := vNetOf(chosen.dst.IPNet)
		vAssert("match:verbatim-source", vAnd(af.srcIP == sip, af.srcIPMask == sm))
		vAssert("match:verbatim-destination", vAnd(af.dstIP == dip, af.dstIPMask == dm))
		vAssert("match:verbatim-ports", af.srcPortRange == chosen.src.ports && af.dstPortRange == chosen.dst.ports)
		vAssert("match:proto", vOr(vAnd(chosen.proto == reservedProto, af.protoMask == 0), vAnd(af.proto == chosen.proto, af.protoMask == 0xff)))
		// the same for every PDR of that direction
		p2 := mk()
		_ = p2.parseApplicationID(ie.NewApplicationID(name), tbl)
		vAssert("match:same-for-all-pdrs-of-the-direction", p2.appFilter == af)
	}
}

var vC08PortBytes = 5

// H_C08_bytes: the port token of a flow description as REAL BYTES: the text is
// "permit out <proto> from 10.1.0.0/16 <port token> to assigned" with a port
// token of 1..vC08PortBytes arbitrary printable non-space bytes. The real
// strings.Fields, strings.Split and strconv.ParseUint run on it (no contract
// stubs). A byte-level reference decides what the token means: digits = one
// port <= 65535; digits '-' digits = a range with low <= high; anything else is
// refused (or, when the token is the word "to", it is the keyword).
func H_C08_bytes() {
	n := 1 + vChoose("port_len", vC08PortBytes)
	b := vBytes("port", n)
	for _, c := range b {
		vAssume(vAnd(c > 0x20, c < 0x7f))
	}
	tok := string(b)
	vAssume(tok != "to") // the keyword: a different sentence
	desc := "permit out 17 from 10.1.0.0/16 " + tok + " to assigned"
	ipf, err := parseFlowDesc(desc, "10.250.0.5")
	// reference over the bytes
	isDigit := func(c byte) bool { return c >= '0' && c <= '9' }
	num := func(d []byte) (uint64, bool) {
		if len(d) == 0 {
			return 0, false
		}
		var v uint64
		for _, c := range d {
			if !isDigit(c) {
				return 0, false
			}
			v = v*10 + uint64(c-'0')
		}
		return v, v <= 65535
	}
	dash := -1
	for k, c := range b {
		if c == '-' && dash < 0 {
			dash = k
		}
	}
	var lo, hi uint64
	var ok bool
	if dash < 0 {
		lo, ok = num(b)
		hi = lo
	} else {
		var ok1, ok2 bool
		lo, ok1 = num(b[:dash])
		hi, ok2 = num(b[dash+1:])
		ok = ok1 && ok2 && lo <= hi
	}
	vObserve("bytes", err != nil)
	if ok {
		vCover("port-accepted")
		vAssert("well-formed-port-token-accepted", err == nil && ipf != nil)
		vAssert("source-ports-as-written", vAnd(ipf.src.ports.low == uint16(lo), ipf.src.ports.high == uint16(hi)))
		vAssert("destination-ports-untouched", ipf.dst.ports.isWildcardMatch())
		vAssert("protocol-as-written", ipf.proto == 17)
	} else {
		vCover("port-refused")
		vAssert("malformed-port-token-refused", err != nil && ipf == nil)
	}
}
