//go:build verif

package pfcpiface

import (
	"math/rand"

	"github.com/wmnsk/go-pfcp/ie"
	"github.com/wmnsk/go-pfcp/message"
)

// C09 — the session-wide limiter is chosen soundly.

var vC09PDRs = 2
var vC09List = 2
var vC09QERs = 3
var vC09Bursts = 0 // 0: gates and rates (bursts arbitrary); 1: bursts

// vSessionForQer builds a session with symbolic PDR QER-id lists and QERs.
func vSessionForQer() (*PFCPSession, [][]uint32, []qer) {
	s := &PFCPSession{}
	np := 1 + vChoose("npdr", vC09PDRs)
	var lists [][]uint32
	for p := 0; p < np; p++ {
		n := vChoose("nlist", vC09List+1)
		l := make([]uint32, 0, n)
		for k := 0; k < n; k++ {
			id := vU32("qerid_in_pdr")
			for _, o := range l {
				vAssume(o != id) // QER IDs are unique within one PDR
			}
			l = append(l, id)
		}
		cp := make([]uint32, len(l))
		copy(cp, l)
		lists = append(lists, cp)
		s.pdrs = append(s.pdrs, pdr{pdrID: uint32(p + 1), qerIDList: l})
	}
	nq := vChoose("nqer", vC09QERs+1)
	var qers []qer
	for k := 0; k < nq; k++ {
		q := qer{qerID: vU32("qerid"), ulMbr: vU64("ulmbr"), dlMbr: vU64("dlmbr"), ulGbr: vU64("ulgbr"), dlGbr: vU64("dlgbr")}
		for _, o := range qers {
			vAssume(o.qerID != q.qerID) // QER IDs are unique within a session
		}
		qers = append(qers, q)
	}
	return s, lists, qers
}

func vInList(l []uint32, id uint32) bool {
	r := false
	for _, x := range l {
		r = vOr(r, x == id)
	}
	return r
}

// H_C09_mark: one MarkSessionQer call on an arbitrary session.
func H_C09_mark() {
	s, lists, qers := vSessionForQer()
	s.qers = append(s.qers, qers...)
	work := make([]qer, len(qers))
	copy(work, qers)
	s.MarkSessionQer(work)

	marked := 0
	for k := range work {
		if work[k].qosLevel == SessionQos {
			marked++
			vCover("marked")
			// the marked QER is referenced by every PDR of the session
			inAll := true
			for _, l := range lists {
				inAll = vAnd(inAll, vInList(l, work[k].qerID))
			}
			vAssert("session-qer-is-referenced-by-every-pdr", inAll)
			// (the code also means to skip QERs with a GBR; the statement does not
			// require it, so it is observed, not asserted)
			vObserve("marked-has-gbr", vOr(work[k].ulGbr != 0, work[k].dlGbr != 0))
		}
		// nothing but the level is touched
		vAssert("qer-values-untouched", vAnd(vAnd(work[k].qerID == qers[k].qerID, work[k].ulMbr == qers[k].ulMbr),
			vAnd(work[k].ulGbr == qers[k].ulGbr, work[k].dlGbr == qers[k].dlGbr)))
	}
	vObserve("marked", marked)
	vAssert("at-most-one-session-qer", marked <= 1)
	if marked == 0 {
		vCover("unmarked")
	}
	// PDR lists keep their elements (only the order may change)
	for p, l := range lists {
		vAssert("pdr-list-length-kept", len(s.pdrs[p].qerIDList) == len(l))
		same := true
		for _, id := range l {
			same = vAnd(same, vInList(s.pdrs[p].qerIDList, id))
		}
		vAssert("pdr-list-elements-kept", same)
	}
}

// H_C09_relabel: QERs already stored keep their level when other QERs are
// processed: a second MarkSessionQer call over a different list (the QERs of
// the current message, as the handlers do) marks the same id or none.
func H_C09_twocalls() { vC09TwoCalls(false) }

// H_C09_partial: H_C09_twocalls followed by a later message that carries only
// some of the session's QERs (run with the quick bounds in both tiers).
func H_C09_partial() { vC09TwoCalls(true) }

func vC09TwoCalls(partial bool) {
	s, _, qers := vSessionForQer()
	s.qers = append(s.qers, qers...)
	msg := make([]qer, len(qers))
	copy(msg, qers)
	s.MarkSessionQer(s.qers)
	s.labelLikeStored(msg) // what the handlers do with the QERs of the message
	var a, b uint32
	na, nb := 0, 0
	for k := range s.qers {
		if s.qers[k].qosLevel == SessionQos {
			a = s.qers[k].qerID
			na++
		}
		if msg[k].qosLevel == SessionQos {
			b = msg[k].qerID
			nb++
		}
	}
	vObserve("two", na, nb)
	vAssert("stored-and-message-lists-agree-on-count", na == nb)
	vAssert("stored-and-message-lists-agree-on-id", vImplies(na == 1, a == b))
	vCover("two")
	// a later message (a modification) carries only SOME of the session's QERs,
	// in its own order: each of them is labelled exactly as the stored one is
	if n := len(qers); partial && n > 0 {
		rot, keep := vChoose("msg_rotation", n), 1+vChoose("msg_len", n)
		var part []qer
		for k := 0; k < keep; k++ {
			part = append(part, qers[(rot+k)%n])
		}
		s.labelLikeStored(part)
		for _, m := range part {
			for _, st := range s.qers {
				if st.qerID == m.qerID {
					vAssert("partial-message:each-qer-labelled-as-the-stored-one", (m.qosLevel == SessionQos) == (st.qosLevel == SessionQos))
				}
			}
		}
		vCover("partial")
	}
}

// ---------------------------------------------------------------------------
// Rates, gates and bursts as they reach the datapaths.

// H_C09_bess: one QER through bess.SendMsgToUPF/addQER into the in-harness BESS.
func H_C09_bess() {
	if vC09Bursts == 0 {
		vBurstLoose = 1
	}
	env := vNewBess()
	lvl := ApplicationQos
	mod := AppQerLookup
	if vBool("session_level") {
		lvl, mod = SessionQos, SessQerLookup
	}
	qfi := []uint8{9, 5}[vChoose("qfi", 2)] // 9: configured burst minimums; 5: defaults
	q := qer{qerID: vU32("qer_id"), qosLevel: lvl, qfi: qfi, ulStatus: vU8("ul_gate") & 1, dlStatus: vU8("dl_gate") & 1,
		ulMbr: vU64("ul_mbr") & 0xffffffffff, dlMbr: vU64("dl_mbr") & 0xffffffffff, ulGbr: vU64("ul_gbr") & 0xffffffffff, dlGbr: vU64("dl_gbr") & 0xffffffffff, fseID: vU64("fseid")}
	// the expected per-QFI minimums come from the CONFIGURATION handed to
	// readQciQosMap in vNewBess (entries 9 and 7) and the documented built-in
	// default for everything else - not from the map the code under test built
	cfg := &QosConfigVal{cbs: 32 * 1514, ebs: 32 * 1514, pbs: 32 * 1514, burstDurationMs: 10, schedulePriority: 7}
	if qfi == 9 {
		cfg = &QosConfigVal{cbs: 2048, ebs: 4096, pbs: 8192, burstDurationMs: 20, schedulePriority: 6}
	}
	env.b.SendMsgToUPF(upfMsgTypeAdd, PacketForwardingRules{qers: []qer{q}}, PacketForwardingRules{})
	es := env.srv.qos[mod]
	vAssert("one-uplink-and-one-downlink-entry", len(es) == 2)
	for k, e := range es {
		dir, st, mbr, gbr := "uplink", q.ulStatus, q.ulMbr, q.ulGbr
		if k == 1 {
			dir, st, mbr, gbr = "downlink", q.dlStatus, q.dlMbr, q.dlGbr
		}
		vAssert(dir+":keyed-by-its-direction", e.fields[0] == []uint64{access, core}[k])
		closed := st != ie.GateStatusOpen
		both0 := vAnd(mbr == 0, gbr == 0)
		if vC09Bursts == 0 {
			vAssert(dir+":closed-gate-drops", vImplies(closed, e.gate == qerGateStatusDrop))
			vAssert(dir+":both-rates-zero-means-unmetered", vImplies(vAnd(!closed, both0), e.gate == qerGateUnmeter))
			metered := vAnd(!closed, vAnd(vNot(both0), gbr <= mbr))
			vAssert(dir+":metered-gate", vImplies(metered, e.gate == qerGateMeter))
			vAssert(dir+":peak-rate-is-mbr-x-125", vImplies(metered, e.pir == mbr*125))
			vAssert(dir+":committed-rate-is-gbr-x-125-floored-at-1", vImplies(metered, e.cir == vIteU64(gbr*125 == 0, 1, gbr*125)))
		} else {
			// bursts: at least the operator-configured minimum for the QFI, and at
			// least rate x burst duration (within the rounding slack of the float computation)
			vAssert(dir+":cbs-at-least-configured-minimum", e.cbs >= uint64(cfg.cbs))
			vAssert(dir+":pbs-at-least-configured-minimum", e.pbs >= uint64(cfg.pbs))
			vAssert(dir+":ebs-at-least-configured-minimum", e.ebs >= uint64(cfg.ebs))
			need := mbr * uint64(cfg.burstDurationMs) / 8
			slack := 2 + need>>49
			vAssert(dir+":pbs-at-least-rate-x-burst-duration", e.pbs+slack >= need)
		}
	}
	vObserve("bess-qer", es[0].gate, es[1].gate, es[0].pir, es[1].pir, es[0].cir, es[1].cir)
	vCover("bess")
}

// H_C09_up4term: gate -> drop action and QFI -> traffic class on UP4.
func H_C09_up4term() {
	qfi, mapTC, defTC := vU8("qfi")&0x3f, vU8("map_tc"), vU8("default_tc")
	vAssume(mapTC <= 3)
	vAssume(defTC <= 3)
	mapped := vBool("qfi_is_mapped")
	m := map[uint8]uint8{}
	if mapped {
		m[qfi] = mapTC
	}
	st := vNewUP4(8, 3, defTC, m)
	u := st.up4
	u.conf.QFIToTC = m
	iface := uint8(access)
	if vBool("downlink") {
		iface = core
	}
	ue := uint32(0x0afa0005)
	p := pdr{srcIface: iface, srcIfaceMask: 0xff, ueAddress: ue, pdrID: 1, fseID: 7, farID: 1, qerIDList: []uint32{1}, precedence: 10,
		tunnelIP4Dst: 0xc6120001, tunnelTEID: 0x99}
	if iface == core {
		p.appFilter.dstIP, p.appFilter.dstIPMask = ue, 0xffffffff
	} else {
		p.appFilter.srcIP, p.appFilter.srcIPMask = ue, 0xffffffff
	}
	u.fseidToUEAddr[7] = ue
	f := far{farID: 1, fseID: 7, applyAction: vU8("apply_action") & 0xf, dstIntf: 1}
	if iface == core {
		f.dstIntf = 0
	}
	vAssume(f.applyAction != 0)
	q := qer{qerID: 1, fseID: 7, qfi: qfi, ulStatus: vU8("ul_gate") & 1, dlStatus: vU8("dl_gate") & 1}
	err := u.modifyUP4ForwardingConfiguration([]pdr{p}, []far{f}, []qer{q}, 1 /* INSERT */)
	vAssert("written", err == nil)
	tbl := "terminations_uplink"
	gate := q.ulStatus
	if iface == core {
		tbl, gate = "terminations_downlink", q.dlStatus
	}
	rs := st.srv.decode(tbl)
	vAssert("one-terminations-entry", len(rs) == 1)
	r := rs[0]
	drop := vOr(f.applyAction&ActionDrop != 0, gate == ie.GateStatusClosed)
	isDrop := r.action == "uplink_term_drop" || r.action == "downlink_term_drop"
	vAssert("closed-gate-or-dropping-FAR-drops", drop == isDrop)
	if !isDrop {
		vCover("forwards")
		wantTC := uint64(vIteU8(mapped, mapTC, defTC))
		vAssert("traffic-class-is-the-one-configured-for-the-QFI", r.params["tc"] == wantTC)
		if iface == core {
			vAssert("qfi-is-the-QER's", r.params["qfi"] == uint64(qfi))
		}
	} else {
		vCover("drops")
	}
}

// H_C09_relabel: creating other rules never re-labels the session-wide
// limiter: a modification that adds a PDR referencing only the application
// QER makes the old session QER no longer common to all PDRs; whatever the
// agent then decides, there is at most one session-level QER and the QER that
// was session-level is not silently turned into something else while another
// takes its place in the same breath.
func H_C09_relabel() {
	e := vNewEnv(false)
	e.pc.rng = rand.New(&vRandSource{counter: true})
	e.dp.fixedCause = 1
	pdrs, fars, _ := vConcreteRules()
	// both PDRs reference the application QER 1 and QER 4: QER 4 (the larger
	// MBR) is the session-wide limiter
	pdrs[0].qerIDs, pdrs[1].qerIDs = []uint32{1, 4}, []uint32{1, 4}
	qers := []vQERSpec{{id: 1, qfi: 9, ulMbr: 1000, dlMbr: 2000}, {id: 4, qfi: 0, ulMbr: 50000, dlMbr: 50000}}
	e.vSend(vEstablishment(1, 0xc0, "cp.test", pdrs, fars, qers))
	r, ok := e.vLastReply().(*message.SessionEstablishmentResponse)
	vAssume(ok && vCauseOf(r.Cause) == ie.CauseRequestAccepted)
	fs, _ := r.UPFSEID.FSEID()
	s0, _ := e.pc.store.GetSession(fs.SEID)
	sessBefore := 0
	for _, q := range s0.qers {
		if q.qosLevel == SessionQos {
			sessBefore++
			vAssert("session-qer-is-the-common-one", q.qerID == 4)
		}
	}
	vAssert("one-session-qer-after-establishment", sessBefore == 1)
	// add a PDR that references only QER 1
	np := vPDRSpec{uplink: true, id: 3, prec: 50, teid: 0x4321, n3: [4]byte{198, 18, 0, 1}, ue: [4]byte{10, 250, 0, 5}, farID: 1, qerIDs: []uint32{1}}
	e.vSend(message.NewSessionModificationRequest(0, 0, fs.SEID, 2, 0, np.create()))
	m, ok := e.vLastReply().(*message.SessionModificationResponse)
	vAssume(ok && vCauseOf(m.Cause) == ie.CauseRequestAccepted)
	s1, _ := e.pc.store.GetSession(fs.SEID)
	n := 0
	for _, q := range s1.qers {
		if q.qosLevel == SessionQos {
			n++
		}
	}
	vObserve("relabel", n)
	vTag("modification-adds-pdr-with-other-qer-list")
	vCover("relabel")
	vAssert("at-most-one-session-qer-after-adding-a-pdr", n <= 1)
}

// H_C09_bessburst: as H_C09_bess, asserting the burst sizes.
func H_C09_bessburst() {
	vC09Bursts = 1
	H_C09_bess()
}

// H_C09_remark: the control plane updates the QER that currently IS the
// session-level QER (new rates, possibly a GBR that disqualifies it): after the
// handlers' UpdateQER + MarkSessionQer at most one QER of the session is
// session-level - the old label does not survive next to a new one.
func H_C09_remark() {
	s, _, qers := vSessionForQer()
	s.qers = append(s.qers, qers...)
	s.MarkSessionQer(s.qers)
	marked := -1
	for k := range s.qers {
		if s.qers[k].qosLevel == SessionQos {
			marked = k
		}
	}
	if marked < 0 {
		return
	}
	u := qer{qerID: s.qers[marked].qerID, ulMbr: vU64("new_ulmbr"), dlMbr: vU64("new_dlmbr"), ulGbr: vU64("new_ulgbr"), dlGbr: vU64("new_dlgbr")}
	vAssert("remark:update-of-a-stored-qer-succeeds", s.UpdateQER(u) == nil)
	s.MarkSessionQer(s.qers)
	n := 0
	for k := range s.qers {
		if s.qers[k].qosLevel == SessionQos {
			n++
		}
	}
	vObserve("remark", n)
	vAssert("remark:at-most-one-session-level-qer-after-updating-the-session-qer", n <= 1)
	vCover("remark")
}
