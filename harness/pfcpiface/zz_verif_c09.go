//go:build verif

package pfcpiface

// C09 — the session-wide limiter is chosen soundly.

var vC09PDRs = 2
var vC09List = 2
var vC09QERs = 3

// vSessionForQer builds a session with symbolic PDR QER-id lists and QERs.
func vSessionForQer() (*PFCPSession, [][]uint32, []qer) {
	s := &PFCPSession{}
	np := 1 + vChoose("npdr", vC09PDRs)
	var lists [][]uint32
	for p := 0; p < np; p++ {
		n := vChoose("nlist", vC09List+1)
		l := make([]uint32, 0, n)
		for k := 0; k < n; k++ {
			id := vU32("qerid_in_pdr")
			for _, o := range l {
				vAssume(o != id) // QER IDs are unique within one PDR
			}
			l = append(l, id)
		}
		cp := make([]uint32, len(l))
		copy(cp, l)
		lists = append(lists, cp)
		s.pdrs = append(s.pdrs, pdr{pdrID: uint32(p + 1), qerIDList: l})
	}
	nq := vChoose("nqer", vC09QERs+1)
	var qers []qer
	for k := 0; k < nq; k++ {
		q := qer{qerID: vU32("qerid"), ulMbr: vU64("ulmbr"), dlMbr: vU64("dlmbr"), ulGbr: vU64("ulgbr"), dlGbr: vU64("dlgbr")}
		for _, o := range qers {
			vAssume(o.qerID != q.qerID) // QER IDs are unique within a session
		}
		qers = append(qers, q)
	}
	return s, lists, qers
}

func vInList(l []uint32, id uint32) bool {
	r := false
	for _, x := range l {
		r = vOr(r, x == id)
	}
	return r
}

// H_C09_mark: one MarkSessionQer call on an arbitrary session.
func H_C09_mark() {
	s, lists, qers := vSessionForQer()
	s.qers = append(s.qers, qers...)
	work := make([]qer, len(qers))
	copy(work, qers)
	s.MarkSessionQer(work)

	marked := 0
	for k := range work {
		if work[k].qosLevel == SessionQos {
			marked++
			vCover("marked")
			// the marked QER is referenced by every PDR of the session
			inAll := true
			for _, l := range lists {
				inAll = vAnd(inAll, vInList(l, work[k].qerID))
			}
			vAssert("session-qer-is-referenced-by-every-pdr", inAll)
			// (the code also means to skip QERs with a GBR; the statement does not
			// require it, so it is observed, not asserted)
			vObserve("marked-has-gbr", vOr(work[k].ulGbr != 0, work[k].dlGbr != 0))
		}
		// nothing but the level is touched
		vAssert("qer-values-untouched", vAnd(vAnd(work[k].qerID == qers[k].qerID, work[k].ulMbr == qers[k].ulMbr),
			vAnd(work[k].ulGbr == qers[k].ulGbr, work[k].dlGbr == qers[k].dlGbr)))
	}
	vObserve("marked", marked)
	vAssert("at-most-one-session-qer", marked <= 1)
	if marked == 0 {
		vCover("unmarked")
	}
	// PDR lists keep their elements (only the order may change)
	for p, l := range lists {
		vAssert("pdr-list-length-kept", len(s.pdrs[p].qerIDList) == len(l))
		same := true
		for _, id := range l {
			same = vAnd(same, vInList(s.pdrs[p].qerIDList, id))
		}
		vAssert("pdr-list-elements-kept", same)
	}
}

// H_C09_relabel: QERs already stored keep their level when other QERs are
// processed: a second MarkSessionQer call over a different list (the QERs of
// the current message, as the handlers do) marks the same id or none.
func H_C09_twocalls() {
	s, _, qers := vSessionForQer()
	s.qers = append(s.qers, qers...)
	msg := make([]qer, len(qers))
	copy(msg, qers)
	s.MarkSessionQer(s.qers)
	s.MarkSessionQer(msg)
	var a, b uint32
	na, nb := 0, 0
	for k := range s.qers {
		if s.qers[k].qosLevel == SessionQos {
			a = s.qers[k].qerID
			na++
		}
		if msg[k].qosLevel == SessionQos {
			b = msg[k].qerID
			nb++
		}
	}
	vObserve("two", na, nb)
	vAssert("stored-and-message-lists-agree-on-count", na == nb)
	vAssert("stored-and-message-lists-agree-on-id", vImplies(na == 1, a == b))
	vCover("two")
}
