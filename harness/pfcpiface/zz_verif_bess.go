//go:build verif

package pfcpiface

import (
	"context"
	"math/rand"
	"sync"

	pb "github.com/omec-project/upf-epc/pfcpiface/bess_pb"
	"google.golang.org/grpc"
	"google.golang.org/protobuf/proto"
	"google.golang.org/protobuf/types/known/anypb"
)

// An in-harness BESS: the real bess plug-in talks to it through the real
// BESSControlClient interface (ModuleCommand). It keeps the content of the
// lookup modules.

type vWMEntry struct { // WildcardMatch entry (pdrLookup)
	values, masks [8]uint64
	valuesv       [5]uint64
	gate          uint64
	prio          int64
}

type vEMEntry struct { // ExactMatch entry (farLookup)
	fields [2]uint64
	values [6]uint64
	gate   uint64
}

type vQosEntry struct { // Qos entry (appQERLookup / sessionQERLookup / sliceMeter)
	fields                       []uint64
	values                       []uint64
	gate, cir, pir, cbs, pbs, ebs uint64
}

type vBessServer struct {
	mu                   sync.Mutex // the plug-in issues its calls from concurrent goroutines
	pb.BESSControlClient            // every other RPC is unused by the code under test
	pdr                  []vWMEntry
	far                  []vEMEntry
	qos                  map[string][]vQosEntry // module -> entries
	cmds                 []string               // "module:cmd" in arrival order
	clears               map[string]int
	unknown              int
}

func vNewBessServer() *vBessServer {
	return &vBessServer{qos: map[string][]vQosEntry{}, clears: map[string]int{}}
}

// vAnyStore: under the engine anypb.New (protobuf wire encoding, reflection)
// is replaced by a stub that keeps the typed message.
var vAnyStore []proto.Message

func vInstallAnyStub() {
	if !vInEngine() {
		return
	}
	vAnyStore = nil
	vOverride("google.golang.org/protobuf/types/known/anypb.New", func(m proto.Message) (*anypb.Any, error) {
		vAnyStore = append(vAnyStore, m)
		n := len(vAnyStore) - 1
		return &anypb.Any{TypeUrl: "harness", Value: []byte{byte(n >> 8), byte(n)}}, nil
	})
}

func vAnyDecode(a *anypb.Any) proto.Message {
	if a == nil {
		return nil
	}
	if vInEngine() {
		return vAnyStore[int(a.Value[0])<<8|int(a.Value[1])]
	}
	m, err := a.UnmarshalNew()
	if err != nil {
		return nil
	}
	return m
}

func vInts(fs []*pb.FieldData) []uint64 {
	out := make([]uint64, len(fs))
	for k, f := range fs {
		out[k] = f.GetValueInt()
	}
	return out
}

func vEqU64s(a, b []uint64) bool {
	if len(a) != len(b) {
		return false
	}
	r := true
	for k := range a {
		r = vAnd(r, a[k] == b[k])
	}
	return r
}

func (s *vBessServer) ModuleCommand(ctx context.Context, in *pb.CommandRequest, opts ...grpc.CallOption) (*pb.CommandResponse, error) {
	s.mu.Lock()
	defer s.mu.Unlock()
	s.cmds = append(s.cmds, in.Name+":"+in.Cmd)
	if in.Cmd == "clear" {
		s.clears[in.Name]++
		switch in.Name {
		case "pdrLookup":
			s.pdr = nil
		case "farLookup":
			s.far = nil
		default:
			s.qos[in.Name] = nil
		}
		return &pb.CommandResponse{}, nil
	}
	switch m := vAnyDecode(in.Arg).(type) {
	case *pb.WildcardMatchCommandAddArg:
		var e vWMEntry
		copy(e.values[:], vInts(m.Values))
		copy(e.masks[:], vInts(m.Masks))
		copy(e.valuesv[:], vInts(m.Valuesv))
		e.gate, e.prio = m.Gate, m.Priority
		// same (values, masks): replace
		for k := range s.pdr {
			if s.pdr[k].values == e.values && s.pdr[k].masks == e.masks {
				s.pdr[k] = e
				return &pb.CommandResponse{}, nil
			}
		}
		s.pdr = append(s.pdr, e)
	case *pb.WildcardMatchCommandDeleteArg:
		var v, mk [8]uint64
		copy(v[:], vInts(m.Values))
		copy(mk[:], vInts(m.Masks))
		for k := range s.pdr {
			if s.pdr[k].values == v && s.pdr[k].masks == mk {
				s.pdr = append(append([]vWMEntry{}, s.pdr[:k]...), s.pdr[k+1:]...)
				return &pb.CommandResponse{}, nil
			}
		}
		return &pb.CommandResponse{Error: &pb.Error{Code: 2, Errmsg: "no such rule"}}, nil
	case *pb.ExactMatchCommandAddArg:
		var e vEMEntry
		copy(e.fields[:], vInts(m.Fields))
		copy(e.values[:], vInts(m.Values))
		e.gate = m.Gate
		for k := range s.far {
			if s.far[k].fields == e.fields {
				s.far[k] = e
				return &pb.CommandResponse{}, nil
			}
		}
		s.far = append(s.far, e)
	case *pb.ExactMatchCommandDeleteArg:
		var f [2]uint64
		copy(f[:], vInts(m.Fields))
		for k := range s.far {
			if s.far[k].fields == f {
				s.far = append(append([]vEMEntry{}, s.far[:k]...), s.far[k+1:]...)
				return &pb.CommandResponse{}, nil
			}
		}
		return &pb.CommandResponse{Error: &pb.Error{Code: 2, Errmsg: "no such rule"}}, nil
	case *pb.QosCommandAddArg:
		e := vQosEntry{fields: vInts(m.Fields), values: vInts(m.Values), gate: m.Gate, cir: m.Cir, pir: m.Pir, cbs: m.Cbs, pbs: m.Pbs, ebs: m.Ebs}
		l := s.qos[in.Name]
		for k := range l {
			if vEqU64sConcrete(l[k].fields, e.fields) {
				l[k] = e
				return &pb.CommandResponse{}, nil
			}
		}
		s.qos[in.Name] = append(l, e)
	case *pb.QosCommandDeleteArg:
		f := vInts(m.Fields)
		l := s.qos[in.Name]
		for k := range l {
			if vEqU64sConcrete(l[k].fields, f) {
				s.qos[in.Name] = append(append([]vQosEntry{}, l[:k]...), l[k+1:]...)
				return &pb.CommandResponse{}, nil
			}
		}
		return &pb.CommandResponse{Error: &pb.Error{Code: 2, Errmsg: "no such rule"}}, nil
	default:
		s.unknown++
	}
	return &pb.CommandResponse{}, nil
}

func vEqU64sConcrete(a, b []uint64) bool {
	if len(a) != len(b) {
		return false
	}
	for k := range a {
		if a[k] != b[k] {
			return false
		}
	}
	return true
}

func (s *vBessServer) total() int {
	n := len(s.pdr) + len(s.far)
	for _, l := range s.qos {
		n += len(l)
	}
	return n
}

type vBessEnv struct {
	b   *bess
	srv *vBessServer
}

func vNewBess() *vBessEnv {
	srv := vNewBessServer()
	vInstallAnyStub()
	if vInEngine() {
		vInstallBurstStub()
	}
	b := &bess{client: srv, endMarkerChan: make(chan []byte, 64)}
	// the QCI/QFI burst configuration is built by the real readQciQosMap from a
	// configuration with two differing entries (the default entry 0 is added by
	// the function itself)
	b.readQciQosMap(&Conf{QciQosConfig: []QciQosConfig{
		{QCI: 9, CBS: 2048, EBS: 4096, PBS: 8192, BurstDurationMs: 20, SchedulingPriority: 6},
		{QCI: 7, CBS: 100, EBS: 200, PBS: 300, BurstDurationMs: 5, SchedulingPriority: 2},
	}})
	return &vBessEnv{b, srv}
}

type vBessStack struct {
	e   *vEnv
	env *vBessEnv
}

// vNewBessStack: real PFCP handlers on the real bess plug-in on the in-harness BESS.
func vNewBessStack() *vBessStack {
	vConcreteClock(1000000) // time is not the subject of the harnesses built on this stack
	env := vNewBess()
	e := vNewEnv(false)
	e.pc.rng = rand.New(&vRandSource{counter: true})
	e.pc.maxRetries = 2
	e.u.datapath = env.b
	return &vBessStack{e, env}
}
