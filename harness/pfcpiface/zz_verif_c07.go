//go:build verif

package pfcpiface

import (
	"fmt"
	"math/rand"
	"sync"

	"github.com/wmnsk/go-pfcp/ie"
	"github.com/wmnsk/go-pfcp/message"
)

// C07 — UP-chosen identifiers are unique among live users.

var vC07Used = 3

// vTEIDState builds a generator in an arbitrary state satisfying the
// representation invariant: offset < 2^32-1 (established by
// NewFTEIDGenerator, preserved by updateOffset, both asserted in
// H_C07_teid_inv) and usedMap keys < 2^32-1, pairwise distinct.
func vTEIDState() (*FTEIDGenerator, []uint32) {
	g := NewFTEIDGenerator()
	g.offset = vU32("offset")
	vAssume(g.offset < maxValue)
	n := vChoose("nused", vC07Used+1)
	var keys []uint32
	for k := 0; k < n; k++ {
		key := vU32("used")
		vAssume(key < maxValue)
		for _, o := range keys {
			vAssume(o != key)
		}
		keys = append(keys, key)
		g.usedMap[key] = true
	}
	vGuarded(g.usedMap, &g.lock, "FTEIDGenerator.usedMap")
	vGuarded(&g.offset, &g.lock, "FTEIDGenerator.offset")
	return g, keys
}

func vIn(keys []uint32, x uint32) bool {
	r := false
	for _, k := range keys {
		r = vOr(r, k == x)
	}
	return r
}

// H_C07_teid_alloc: one Allocate from an arbitrary valid state (cursor and
// used set symbolic, so wrap-around at 2^32-2 is an ordinary case).
func H_C07_teid_alloc() {
	g, keys := vTEIDState()
	off0 := g.offset
	id, err := g.Allocate()
	vObserve("alloc", id, err != nil, g.offset, len(g.usedMap))
	if err != nil {
		vCover("alloc-refused")
		// with at most vC07Used (< 2^32-1) identifiers in use a free one exists:
		// refusing is wrong
		vAssert("refuse-only-when-exhausted", false)
		return
	}
	vCover("alloc-ok")
	vAssert("teid-nonzero", id != 0)
	vAssert("teid-not-in-use-before", vNot(vIn(keys, id-1)))
	vAssert("teid-marked-used", g.IsAllocated(id))
	vAssert("used-set-grew-by-one", len(g.usedMap) == len(keys)+1)
	for _, k := range keys {
		vAssert("others-still-used", g.IsAllocated(k+1))
	}
	vAssert("cursor-invariant", g.offset < maxValue)
	vAssert("cursor-follows-id", g.offset == id%maxValue)
	_ = off0
	// a second allocation differs from the first
	id2, err2 := g.Allocate()
	vAssert("second-alloc-ok", err2 == nil)
	vAssert("second-differs", id2 != id)
	vAssert("second-nonzero", id2 != 0)
	vAssert("second-not-in-use-before", vNot(vIn(keys, id2-1)))
}

// H_C07_teid_free: FreeID removes exactly the identifier given.
func H_C07_teid_free() {
	g, keys := vTEIDState()
	x := vU32("free")
	was := g.IsAllocated(x)
	g.FreeID(x)
	vObserve("free", was, len(g.usedMap))
	vAssert("freed", vNot(g.IsAllocated(x)))
	for _, k := range keys {
		vAssert("others-untouched", vImplies(k+1 != x, g.IsAllocated(k+1)))
	}
	vAssert("size", vOr(vAnd(was, len(g.usedMap) == len(keys)-1), vAnd(vNot(was), len(g.usedMap) == len(keys))))
	if was {
		vCover("free-held")
		// a freed id can be handed out again, and only ids that are free are
		id, err := g.Allocate()
		vAssert("alloc-after-free-ok", err == nil)
		vAssert("alloc-after-free-not-live", vOr(id == x, vNot(vIn(keys, id-1))))
	} else {
		vCover("free-stranger")
	}
	vAssert("cursor-invariant", g.offset < maxValue)
}

// H_C07_teid_inv: the representation invariant the step harnesses start from.
func H_C07_teid_inv() {
	g := NewFTEIDGenerator()
	vAssert("init-cursor", g.offset < maxValue)
	vAssert("init-empty", len(g.usedMap) == 0)
	g.offset = vU32("offset")
	vAssume(g.offset < maxValue)
	g.lock.Lock()
	g.updateOffset()
	g.lock.Unlock()
	vObserve("cursor", g.offset)
	vAssert("update-keeps-cursor-below-max", g.offset < maxValue)
	vCover("inv")
}

// H_C07_teid_full: the scan terminates with an error exactly when it came
// back to its start: with every slot of a tiny ring in use. The ring cannot be
// shrunk (maxValue is a constant), so exhaustion itself is out of reach; what
// is decided is that the scan skips runs of used offsets of length <= vC07Used
// across the wrap-around and lands on the first free one.
func H_C07_teid_scan() {
	g, keys := vTEIDState()
	off0 := g.offset
	id, err := g.Allocate()
	vAssume(err == nil)
	// every offset skipped between the start and the one chosen was in use
	d := (id - 1 + maxValue - off0) % maxValue // number of skipped offsets
	vObserve("skipped", d)
	vAssert("skipped-at-most-used", d <= uint32(len(keys)))
	for s := uint32(0); s < uint32(vC07Used); s++ {
		skipped := (off0 + s) % maxValue
		vAssert("skipped-were-in-use", vImplies(s < d, vIn(keys, skipped)))
	}
	vCover("scan")
}

// ---------------------------------------------------------------------------
// SEID

var vC07Sessions = 2
var vC07Retries = 3

// H_C07_seid: NewPFCPSession with an adversarial random source and a store
// pre-populated with arbitrary sessions.
func H_C07_seid() {
	m := &vMetrics{}
	pc := &PFCPConn{
		rng:            rand.New(&vRandSource{}),
		maxRetries:     1 + vChoose("maxRetries", vC07Retries),
		store:          NewInMemoryStore(),
		InstrumentPFCP: m,
	}
	pc.nodeID.remote = "cp"
	n := vChoose("nsess", vC07Sessions+1)
	var live []uint64
	for k := 0; k < n; k++ {
		seid := vU64("live")
		vAssume(seid != 0)
		for _, o := range live {
			vAssume(o != seid)
		}
		live = append(live, seid)
		_ = pc.store.PutSession(PFCPSession{localSEID: seid, remoteSEID: vU64("rseid")})
	}
	rseid := vU64("new_rseid")
	src := pc.rng
	s, ok := pc.NewPFCPSession(rseid)
	vObserve("seid", ok, s.localSEID, s.remoteSEID)
	if !ok {
		vCover("seid-refused")
		// refused only after maxRetries draws; every draw collided
		vAssert("gauge-untouched-on-refusal", m.sessionsGauge == 0)
		return
	}
	_ = src
	vCover("seid-ok")
	for _, o := range live {
		vAssert("seid-differs-from-live", s.localSEID != o)
	}
	vAssert("remote-seid-kept", s.remoteSEID == rseid)
	vAssert("gauge-incremented-once", m.sessionsGauge == 1)
	// the session must be storable under its SEID: a zero SEID is refused by the store
	err := pc.store.PutSession(s)
	vAssert("seid-storable(non-zero)", err == nil)
}

// R_C07_teid exercises the generator from several goroutines (native -race
// replay of a lock-discipline violation).
func R_C07_teid() {
	g := NewFTEIDGenerator()
	var wg sync.WaitGroup
	for k := 0; k < 4; k++ {
		wg.Add(1)
		go func() {
			defer wg.Done()
			for r := 0; r < 300; r++ {
				id, _ := g.Allocate()
				_ = g.IsAllocated(id)
				g.FreeID(id)
			}
		}()
	}
	wg.Wait()
}

// H_C07_conc: two goroutines on one F-TEID generator, every interleaving of their
// critical sections: thread 1 allocates; thread 2 allocates and may free what
// it got (or an identifier that was live before). The identifiers handed out
// are non-zero, distinct from each other and from the live one, and the used
// set ends up exactly what the operations imply.
func H_C07_conc() {
	g := NewFTEIDGenerator()
	g.offset = vU32("cursor") // any cursor position, wrap-around included
	vAssume(g.offset != 0xffffffff)
	live, err := g.Allocate()
	vAssert("pre-allocation", err == nil && live != 0)
	frees := vChoose("thread2_frees", 3) // 0 nothing, 1 its own identifier, 2 the one that was live before
	var a, b uint32
	var ea, eb error
	vPreemptAtLocks(3)
	var wg sync.WaitGroup
	wg.Add(2)
	go func() {
		defer wg.Done()
		a, ea = g.Allocate()
	}()
	go func() {
		defer wg.Done()
		b, eb = g.Allocate()
		switch frees {
		case 1:
			g.FreeID(b)
		case 2:
			g.FreeID(live)
		}
	}()
	wg.Wait()
	vJoin()
	vAssert("allocations-succeed", ea == nil && eb == nil)
	vAssert("identifiers-non-zero", vAnd(a != 0, b != 0))
	if frees == 0 {
		vAssert("concurrent-allocations-differ", a != b)
		vAssert("new-identifiers-differ-from-the-live-one", vAnd(a != live, b != live))
	}
	if frees == 1 {
		// b may be handed out again only after it was freed: a == b is possible;
		// but neither may equal the identifier that stayed live
		vAssert("new-identifiers-differ-from-the-live-one", vAnd(a != live, b != live))
	}
	if frees == 2 {
		vAssert("concurrent-allocations-differ", a != b)
	}
	vAssert("identifier-in-use-is-marked", g.IsAllocated(a))
	want := 3
	if frees != 0 {
		want = 2
		if frees == 1 && a == b {
			want = 1 // cannot happen: a == b implies b was freed before a was taken, leaving live + a
		}
	}
	if frees == 1 && a == b {
		vAssert("used-set-size", len(g.usedMap) == 2)
	} else {
		vAssert("used-set-size", len(g.usedMap) == want)
	}
	vCover("conc")
}

// R_C07_conc: native counterpart.
func R_C07_conc() {
	for round := 0; round < 2000; round++ {
		g := NewFTEIDGenerator()
		g.offset = 0xfffffffc
		const workers = 8
		var start, wg sync.WaitGroup
		start.Add(1)
		got := make([]uint32, workers)
		for k := 0; k < workers; k++ {
			wg.Add(1)
			go func(k int) {
				defer wg.Done()
				start.Wait()
				got[k], _ = g.Allocate()
			}(k)
		}
		start.Done()
		wg.Wait()
		seen := map[uint32]bool{}
		for _, id := range got {
			if id == 0 || seen[id] {
				vStressFail(fmt.Sprintf("round %d: identifiers %v", round, got))
			}
			seen[id] = true
		}
		if len(g.usedMap) != workers {
			vStressFail(fmt.Sprintf("round %d: %d identifiers in use after %d allocations", round, len(g.usedMap), workers))
		}
	}
}

// H_C07_live: an identifier the UPF chose stays marked in use for as long as its
// session lives, whatever other sessions - with CP-chosen tunnel identifiers of
// any value, the same one included - come and go.
func H_C07_live() {
	e := vNewEnv(false)
	e.pc.rng = vRng()
	e.dp.fixedCause = 1
	pdrs, fars, qers := vConcreteRules()
	pdrs[0].choose = true
	e.vSend(vEstablishment(1, 0xa1, "cp.test", pdrs, fars, qers))
	ra, ok := e.vLastReply().(*message.SessionEstablishmentResponse)
	vAssert("A-accepted", ok && vCauseOf(ra.Cause) == ie.CauseRequestAccepted && len(ra.CreatedPDR) == 1)
	ft, err := ra.CreatedPDR[0].FTEID()
	vAssert("A-reports-its-teid", err == nil && ft.TEID != 0)
	tA := ft.TEID
	vAssert("A-teid-marked", e.u.fteidGenerator.IsAllocated(tA))
	// session B: the CP chooses the uplink TEID (any value)
	p2, f2, q2 := vConcreteRules()
	p2[0].teid = vU32("cp_chosen_teid")
	p2[0].ue, p2[1].ue = [4]byte{10, 250, 0, 9}, [4]byte{10, 250, 0, 9}
	e.vSend(vEstablishment(2, 0xb1, "cp.test", p2, f2, q2))
	rb, ok := e.vLastReply().(*message.SessionEstablishmentResponse)
	vAssert("B-answered", ok)
	if vCauseOf(rb.Cause) == ie.CauseRequestAccepted {
		fs, _ := rb.UPFSEID.FSEID()
		switch vChoose("end_of_B", 2) {
		case 0:
			e.vSend(vDeletion(3, fs.SEID))
		case 1:
			e.vSend(message.NewSessionReportResponse(0, 0, fs.SEID, 3, 0, ie.NewCause(ie.CauseSessionContextNotFound)))
		}
		vCover("B-ended")
	}
	vAssert("A-teid-still-marked-after-B-came-and-went", e.u.fteidGenerator.IsAllocated(tA))
	vAssert("exactly-the-live-upf-chosen-identifiers-are-marked", len(e.u.fteidGenerator.usedMap) == 1)
	vCover("live")
}

// H_C07_core: a CHOOSE F-TEID on a core-side Create PDR (N9) is served like one on
// the access side: a non-zero identifier, marked in use, distinct from every
// other identifier chosen for live PDRs - and both are reported.
func H_C07_core() {
	e := vNewEnv(false)
	e.pc.rng = vRng()
	e.dp.fixedCause = 1
	pdrs, fars, qers := vConcreteRules()
	pdrs[0].choose = vBool("choose_on_access_pdr")
	pdrs[1].choose = true
	e.vSend(vEstablishment(1, 0xa1, "cp.test", pdrs, fars, qers))
	r, ok := e.vLastReply().(*message.SessionEstablishmentResponse)
	vAssert("accepted", ok && vCauseOf(r.Cause) == ie.CauseRequestAccepted)
	want := 1
	if pdrs[0].choose {
		want = 2
	}
	vAssert("one-created-pdr-per-chosen-identifier", len(r.CreatedPDR) == want)
	seen := map[uint32]bool{}
	for _, c := range r.CreatedPDR {
		ft, err := c.FTEID()
		vAssert("created-pdr-reports-an-f-teid", err == nil)
		vAssert("chosen-identifier-non-zero", ft.TEID != 0)
		vAssert("chosen-identifier-marked-in-use", e.u.fteidGenerator.IsAllocated(ft.TEID))
		vAssert("chosen-identifiers-distinct", !seen[ft.TEID])
		seen[ft.TEID] = true
	}
	// the datapath was programmed with the reported identifiers
	for _, m := range e.dp.msgs {
		for _, p := range m.all.pdrs {
			if p.UPAllocateFteid {
				vAssert("programmed-identifier-is-a-reported-one", seen[p.tunnelTEID])
			}
		}
	}
	vCover("core")
}
