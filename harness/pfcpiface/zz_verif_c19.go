//go:build verif

package pfcpiface

import (
	"bytes"
	"encoding/json"
	"errors"
	"io"
	"net/http"
)

// C19 — the slice-configuration REST endpoint programs what was posted, or nothing.

// vRespWriter records what the handler does to the response.
type vRespWriter struct {
	headerCalls []int
	hdr         http.Header
	body        []byte
}

func (w *vRespWriter) Header() http.Header {
	if w.hdr == nil {
		w.hdr = http.Header{}
	}
	return w.hdr
}
func (w *vRespWriter) Write(b []byte) (int, error) { w.body = append(w.body, b...); return len(b), nil }
func (w *vRespWriter) WriteHeader(status int)      { w.headerCalls = append(w.headerCalls, status) }

// vBody is a request body whose read fails or delivers the given bytes.
type vBody struct {
	data []byte
	fail bool
	done bool
}

func (b *vBody) Read(p []byte) (int, error) {
	if b.fail {
		return 0, errors.New("read error")
	}
	if b.done {
		return 0, io.EOF
	}
	b.done = true
	n := copy(p, b.data)
	return n, nil
}
func (b *vBody) Close() error { return nil }

var vUnits = []string{"bps", "Kbps", "Mbps", "Gbps", "", "Tbps"}
var vUnitMul = []uint64{1, 1000, 1000000, 1000000000, 1000000, 1000000}

// vMulFits computes a*b and whether the product is < 2^63, without
// overflowing: a*b < 2^63 iff a <= (2^63-1)/b.
func vMulFits(a, b uint64) (uint64, bool) {
	fits := a <= (uint64(1)<<63-1)/b
	return a * b, fits
}

// H_C19_rates: calculateBitRates against exact arithmetic.
func H_C19_rates() {
	mbr := vU64("mbr")
	u := vChoose("unit", len(vUnits))
	got := calculateBitRates(mbr, vUnits[u])
	prod, fits := vMulFits(mbr, vUnitMul[u])
	vObserve("rate", got)
	// the statement fixes the result whenever the posted rate is non-zero and
	// the converted value fits in 63 bits
	vAssert("converted-by-unit-when-nonzero-and-fits-63-bits", vImplies(vAnd(mbr != 0, fits), got == prod))
	vCover("rates")
}

// H_C19_http: ServeHTTP end to end against a recording datapath.
//
// Under the engine encoding/json (reflection) is replaced by stubs following
// its documented contract over three kinds of body: a well-formed document,
// text that is malformed from the start, and a well-formed value followed by
// junk. json.Unmarshal accepts only the first; (*json.Decoder).Decode decodes
// the first value of the first and third (a later call returns io.EOF resp. a
// syntax error; More reports false resp. true). In the native replay the body is
// the JSON encoding of that very NetworkSlice (or the malformed / trailing-junk
// text), decoded by the real encoding/json.
func H_C19_http() {
	dp := &vDatapath{}
	u := &upf{datapath: dp}
	h := &ConfigHandler{upf: u}

	var method string
	if vInEngine() {
		method = vStr("method")
	} else {
		method = vStr("method")
	}
	readFails := vBool("read_fails")
	bodyKind := vChoose("body_kind", 3) // 0 well-formed, 1 malformed from the start, 2 well-formed value + junk
	malformed := bodyKind != 0
	unit := vChoose("unit", len(vUnits))
	ns := NetworkSlice{
		SliceName: "slice1",
		SliceQos: SliceQos{
			UplinkMbr: vU64("ul_mbr"), DownlinkMbr: vU64("dl_mbr"), BitrateUnit: vUnits[unit],
			UlBurstBytes: vU64("ul_burst"), DlBurstBytes: vU64("dl_burst"),
		},
	}
	var body []byte
	decodes := 0
	if vInEngine() {
		body = []byte("{}")
		vOverride("encoding/json.Unmarshal", func(data []byte, v interface{}) error {
			if malformed {
				return errors.New("invalid character")
			}
			*(v.(*NetworkSlice)) = ns
			return nil
		})
		vOverride("encoding/json.Marshal", func(v interface{}) ([]byte, error) {
			return []byte("{}"), nil
		})
		vOverride("(*encoding/json.Decoder).Decode", func(d *json.Decoder, v interface{}) error {
			decodes++
			if readFails {
				return errors.New("read error")
			}
			if bodyKind == 1 {
				return errors.New("invalid character")
			}
			if decodes > 1 {
				if bodyKind == 0 {
					return io.EOF
				}
				return errors.New("invalid character '}' looking for beginning of value")
			}
			if ns2, ok := v.(*NetworkSlice); ok {
				*ns2 = ns
			}
			return nil
		})
		vOverride("(*encoding/json.Decoder).More", func(d *json.Decoder) bool {
			return !readFails && bodyKind == 2
		})
	} else if bodyKind == 1 {
		body = []byte("{\"sliceName\": ")
	} else {
		body, _ = json.Marshal(ns)
		if bodyKind == 2 {
			body = append(body, '}')
		}
	}
	_ = bytes.MinRead
	req := &http.Request{Method: method, Body: &vBody{data: body, fail: readFails}}
	w := &vRespWriter{}
	h.ServeHTTP(w, req)

	isWrite := vOr(method == "PUT", method == "POST")
	vObserve("http", len(w.headerCalls), dp.sliceCalls)
	if !isWrite {
		vCover("other-method")
		vAssert("other-method:single-405", vAnd(len(w.headerCalls) == 1, w.headerCalls[0] == 405))
		vAssert("other-method:datapath-untouched", dp.sliceCalls == 0)
		return
	}
	if readFails || malformed {
		vCover("bad-body")
		vTag("bad-body")
		vAssert("bad-body:exactly-one-response", len(w.headerCalls) == 1)
		vAssert("bad-body:status-4xx", vAnd(w.headerCalls[0] >= 400, w.headerCalls[0] < 500))
		vAssert("bad-body:datapath-untouched", dp.sliceCalls == 0)
		return
	}
	vCover("well-formed")
	vAssert("ok:single-201", vAnd(len(w.headerCalls) == 1, w.headerCalls[0] == 201))
	vAssert("ok:datapath-programmed-once", dp.sliceCalls == 1)
	s := dp.slices[0]
	ulProd, ulFits := vMulFits(ns.SliceQos.UplinkMbr, vUnitMul[unit])
	dlProd, dlFits := vMulFits(ns.SliceQos.DownlinkMbr, vUnitMul[unit])
	vAssert("ok:uplink-rate", vImplies(vAnd(ns.SliceQos.UplinkMbr != 0, ulFits), s.uplinkMbr == ulProd))
	vAssert("ok:downlink-rate", vImplies(vAnd(ns.SliceQos.DownlinkMbr != 0, dlFits), s.downlinkMbr == dlProd))
	vAssert("ok:bursts-as-posted", vAnd(s.ulBurstBytes == ns.SliceQos.UlBurstBytes, s.dlBurstBytes == ns.SliceQos.DlBurstBytes))
	vAssert("ok:remembered", u.sliceInfo != nil)

	// the control plane posts the slice again - same name, same rates, other burst
	// sizes (or the very same document): what was posted is programmed again
	ns.SliceQos.UlBurstBytes, ns.SliceQos.DlBurstBytes = vU64("ul_burst_2"), vU64("dl_burst_2")
	decodes = 0
	if !vInEngine() {
		body, _ = json.Marshal(ns)
	}
	w2 := &vRespWriter{}
	h.ServeHTTP(w2, &http.Request{Method: method, Body: &vBody{data: body}})
	vAssert("again:single-201", vAnd(len(w2.headerCalls) == 1, w2.headerCalls[0] == 201))
	vAssert("again:datapath-programmed-again", dp.sliceCalls == 2)
	if dp.sliceCalls == 2 {
		s2 := dp.slices[1]
		vAssert("again:bursts-as-posted", vAnd(s2.ulBurstBytes == ns.SliceQos.UlBurstBytes, s2.dlBurstBytes == ns.SliceQos.DlBurstBytes))
	}
	vCover("posted-again")
}

// H_C19_bess: the BESS slice meter programmed from a SliceInfo.
func H_C19_bess() {
	env := vNewBess()
	si := &SliceInfo{name: "s", uplinkMbr: vU64("ul_rate"), downlinkMbr: vU64("dl_rate"), ulBurstBytes: vU64("ul_burst"), dlBurstBytes: vU64("dl_burst")}
	err := env.b.AddSliceInfo(si)
	vAssert("no-error", err == nil)
	es := env.srv.qos["sliceMeter"]
	vObserve("slice", len(es))
	// both halves are keyed by their own (action, tunnel type) fields; the
	// in-harness module keeps one entry per distinct key
	vAssert("slice-meter-programmed", len(es) >= 1 && len(env.srv.cmds) == 2)
	last := es[len(es)-1] // downlink (N3) half is sent second
	vAssert("downlink-peak-rate-is-rate/8", vImplies(si.downlinkMbr != 0, vAnd(last.pir == si.downlinkMbr/8, last.gate == sliceMeterGateMeter)))
	vAssert("downlink-zero-rate-unmetered", vImplies(si.downlinkMbr == 0, last.gate == sliceMeterGateUnmeter))
	vAssert("downlink-burst-as-posted-or-default", last.pbs == vIteU64(si.dlBurstBytes != 0, si.dlBurstBytes, DefaultBurstSize))
	vCover("bess-slice")
}

// H_C19_up4: the UP4 slice/TC meter cell programmed from a SliceInfo.
func H_C19_up4() {
	slice, tc := vU8("slice_id"), vU8("default_tc")
	vAssume(slice <= 15)
	vAssume(tc <= 3)
	st := vNewUP4(8, slice, tc, nil)
	st.srv.logOnly = true
	si := &SliceInfo{name: "s", uplinkMbr: vU64("ul_rate") & (1<<63 - 1), downlinkMbr: vU64("dl_rate") & (1<<63 - 1), ulBurstBytes: vU64("ul_burst") & (1<<63 - 1), dlBurstBytes: vU64("dl_burst") & (1<<63 - 1)}
	err := st.up4.AddSliceInfo(si)
	vAssert("no-error", err == nil)
	vAssert("one-meter-write", len(st.srv.log) == 1)
	me := st.srv.log[0].Entity.GetMeterEntry()
	vAssert("is-meter-entry", me != nil && me.Config != nil && me.Index != nil)
	vAssert("cell-is-slice*4+tc", me.Index.Index == int64(slice)*4+int64(tc))
	ulWins := si.uplinkMbr > si.downlinkMbr
	vAssert("rate-is-max-of-ul-and-dl", uint64(me.Config.Pir) == vIteU64(ulWins, si.uplinkMbr, si.downlinkMbr))
	vAssert("burst-goes-with-the-winning-direction", uint64(me.Config.Pburst) == vIteU64(ulWins, si.ulBurstBytes, si.dlBurstBytes))
	vCover("up4-slice")
}
