//go:build verif

package pfcpiface

import (
	"time"
	"math/rand"

	"github.com/wmnsk/go-pfcp/ie"
	"github.com/wmnsk/go-pfcp/message"
)

// C14 — end markers go to the old tunnel, once.

var vC14Updates = 2

func H_C14_endmarker() {
	e := vNewEnv(false)
	e.pc.rng = rand.New(&vRandSource{nonzero: true})
	e.pc.maxRetries = 1
	e.u.enableEndMarker = vBool("end_marker_feature")
	pdrs, fars, qers := vConcreteRules()
	// two downlink FARs with arbitrary (old) tunnels
	oldTEID := [2]uint32{vU32("old_teid_a"), vU32("old_teid_b")}
	oldPeer := [2][4]byte{vSymIP("old_peer_a"), vSymIP("old_peer_b")}
	fars[1].teid, fars[1].peer = oldTEID[0], oldPeer[0]
	fars = append(fars, vFARSpec{id: 3, action: ActionForward, uplink: false, teid: oldTEID[1], peer: oldPeer[1]})
	e.dp.fixedCause = 1
	e.vSend(vEstablishment(1, 0xc0ffee, "cp.test", pdrs, fars, qers))
	r, ok := e.vLastReply().(*message.SessionEstablishmentResponse)
	vAssume(ok && vCauseOf(r.Cause) == ie.CauseRequestAccepted)
	fs, _ := r.UPFSEID.FSEID()
	vAssert("creation-emits-no-end-marker", e.dp.emCalls == 0 && len(e.dp.endMarkers) == 0)

	// optionally an EARLIER attempt to move FAR 2 that failed - refused by the
	// datapath, or carrying a second Update FAR that cannot be parsed: it must
	// leave the stored tunnel as it was, so the markers of the retry below still
	// go to the old tunnel
	switch vChoose("earlier_failed_attempt", 3) {
	case 1:
		e.dp.fixedCause = 64 // ie.CauseRequestRejected
		u := vFARSpec{id: 2, action: ActionForward, uplink: false, teid: 0x0badbad1, peer: [4]byte{203, 0, 113, 9}}
		e.vSend(message.NewSessionModificationRequest(0, 0, fs.SEID, 9, 0, u.update()))
		m0, ok := e.vLastReply().(*message.SessionModificationResponse)
		vAssert("earlier-attempt-refused", ok && vCauseOf(m0.Cause) != ie.CauseRequestAccepted)
		vTag("after-refused-attempt")
	case 2:
		e.dp.fixedCause = 1
		u := vFARSpec{id: 2, action: ActionForward, uplink: false, teid: 0x0badbad2, peer: [4]byte{203, 0, 113, 9}}
		bad := vFARSpec{id: 3, action: 0, uplink: false, teid: 1, peer: [4]byte{203, 0, 113, 9}}
		e.vSend(message.NewSessionModificationRequest(0, 0, fs.SEID, 9, 0, u.update(), bad.update()))
		m0, ok := e.vLastReply().(*message.SessionModificationResponse)
		vAssert("earlier-attempt-refused", ok && vCauseOf(m0.Cause) != ie.CauseRequestAccepted)
		vTag("after-malformed-attempt")
	}
	vAssert("failed-attempt-emits-no-end-marker", len(e.dp.endMarkers) == 0)

	// modification with 1..vC14Updates Update FARs
	e.dp.fixedCause = 0
	e.dp.order = nil
	n := 1 + vChoose("nupdates", vC14Updates)
	var ies []*ie.IE
	want := 0
	// the tunnel each stored FAR uses, tracked through the updates of this
	// message in order: a marker goes to the tunnel used before *its* update
	curTEID, curPeer := oldTEID, oldPeer
	var wantTEID []uint32
	var wantPeer [][4]byte
	for k := 0; k < n; k++ {
		u := vFARSpec{action: ActionForward, uplink: false, teid: vU32("new_teid"), peer: vSymIP("new_peer")}
		target := vChoose("target", 3) // FAR 2, FAR 3, or an unknown FAR id
		u.id = uint32(2 + target)
		if target == 2 {
			u.id = 77
		}
		if vBool("has_smreq_flags") {
			u.smFlags = vU8("smreq_flags")
			vAssume(u.smFlags != 0) // 0 would mean "IE absent" for the builder
		}
		ies = append(ies, u.update())
		if target < 2 {
			if u.smFlags&0x02 != 0 {
				want++
				wantTEID = append(wantTEID, curTEID[target])
				wantPeer = append(wantPeer, curPeer[target])
			}
			curTEID[target], curPeer[target] = u.teid, u.peer
		}
	}
	if vBool("also_create_far") {
		ies = append(ies, vFARSpec{id: 9, action: ActionForward, uplink: false, teid: 5, peer: [4]byte{1, 2, 3, 4}}.create())
	}
	before := len(e.conn.writes)
	e.dp.emCalls = 0
	e.vSend(message.NewSessionModificationRequest(0, 0, fs.SEID, 2, 0, ies...))
	m := e.vExpectReply("mod", before, message.MsgTypeSessionModificationResponse, 2).(*message.SessionModificationResponse)
	accepted := vCauseOf(m.Cause) == ie.CauseRequestAccepted
	vObserve("em", accepted, len(e.dp.endMarkers), want)
	if !accepted {
		vCover("rejected")
		vAssert("failed-update-emits-none", len(e.dp.endMarkers) == 0)
		return
	}
	if !e.u.enableEndMarker {
		vCover("feature-off")
		vAssert("feature-off-emits-none", len(e.dp.endMarkers) == 0)
		return
	}
	vCover("accepted")
	vAssert("one-end-marker-per-flagged-found-update", len(e.dp.endMarkers) == want)
	vAssert("emitted-after-the-update-was-programmed", len(e.dp.order) >= 2 && e.dp.order[0] == "msg" && e.dp.order[1] == "endmarkers")
	for k, pkt := range e.dp.endMarkers {
		f := vEMDecode(pkt)
		vCover("marker-checked")
		vAssert("marker-goes-to-old-peer", f.dst == wantPeer[k])
		vAssert("marker-carries-old-teid", f.teid == wantTEID[k])
		vAssert("marker-sourced-from-upf-access-address", f.src == [4]byte{198, 18, 0, 1})
		vAssert("marker-udp-2152", vAnd(f.sport == 2152, f.dport == 2152))
		vAssert("marker-is-gtpu-end-marker", vAnd(f.gtpType == 254, f.proto == 17))
	}
}

// H_C14_up4queue: on UP4, End Markers travel through a queue that one sender
// loop (started once) drains. After the datapath is initialised again - what
// tryConnect does on every P4Runtime reconnect - SendEndMarkers must still write
// to the queue that loop reads, and what is queued is what was handed over.
func H_C14_up4queue() {
	st := vNewUP4(8, 0, 0, nil)
	u := st.up4
	u.enableEndMarker = true
	vAssert("first-initialisation", u.initialize(true) == nil)
	q0 := u.endMarkerChan
	vAssert("queue-created-with-the-sender-loop", q0 != nil)
	n := 1 + vChoose("reconnects", 2)
	for k := 0; k < n; k++ {
		vAssert("re-initialisation", u.initialize(vBool("clear_state")) == nil)
	}
	vAssert("the-sender-loop's-queue-is-still-the-one-in-use", u.endMarkerChan == q0)
	pkts := [][]byte{{1, 2, 3}, {4, 5}}
	vAssert("markers-accepted", u.SendEndMarkers(&pkts) == nil)
	// under the engine the sender loop is not run: the markers sit in its queue;
	// natively the real loop takes them and sends them on the (recording) stream
	stream := u.p4client.stream.(*vStream)
	if !vInEngine() {
		for w := 0; w < 200 && stream.nsent() < 2; w++ {
			time.Sleep(time.Millisecond)
		}
	}
	vAssert("markers-reach-the-sender-loop", len(q0)+stream.nsent() == 2)
	vCover("up4queue")
}
