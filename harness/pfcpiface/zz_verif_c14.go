//go:build verif

package pfcpiface

import (
	"math/rand"

	"github.com/wmnsk/go-pfcp/ie"
	"github.com/wmnsk/go-pfcp/message"
)

// C14 — end markers go to the old tunnel, once.

var vC14Updates = 2

func H_C14_endmarker() {
	e := vNewEnv(false)
	e.pc.rng = rand.New(&vRandSource{nonzero: true})
	e.pc.maxRetries = 1
	e.u.enableEndMarker = vBool("end_marker_feature")
	pdrs, fars, qers := vConcreteRules()
	// two downlink FARs with arbitrary (old) tunnels
	oldTEID := [2]uint32{vU32("old_teid_a"), vU32("old_teid_b")}
	oldPeer := [2][4]byte{vSymIP("old_peer_a"), vSymIP("old_peer_b")}
	fars[1].teid, fars[1].peer = oldTEID[0], oldPeer[0]
	fars = append(fars, vFARSpec{id: 3, action: ActionForward, uplink: false, teid: oldTEID[1], peer: oldPeer[1]})
	e.dp.fixedCause = 1
	e.vSend(vEstablishment(1, 0xc0ffee, "cp.test", pdrs, fars, qers))
	r, ok := e.vLastReply().(*message.SessionEstablishmentResponse)
	vAssume(ok && vCauseOf(r.Cause) == ie.CauseRequestAccepted)
	fs, _ := r.UPFSEID.FSEID()
	vAssert("creation-emits-no-end-marker", e.dp.emCalls == 0 && len(e.dp.endMarkers) == 0)

	// modification with 1..vC14Updates Update FARs
	e.dp.fixedCause = 0
	e.dp.order = nil
	n := 1 + vChoose("nupdates", vC14Updates)
	var ies []*ie.IE
	want := 0
	// the tunnel each stored FAR uses, tracked through the updates of this
	// message in order: a marker goes to the tunnel used before *its* update
	curTEID, curPeer := oldTEID, oldPeer
	var wantTEID []uint32
	var wantPeer [][4]byte
	for k := 0; k < n; k++ {
		u := vFARSpec{action: ActionForward, uplink: false, teid: vU32("new_teid"), peer: vSymIP("new_peer")}
		target := vChoose("target", 3) // FAR 2, FAR 3, or an unknown FAR id
		u.id = uint32(2 + target)
		if target == 2 {
			u.id = 77
		}
		if vBool("has_smreq_flags") {
			u.smFlags = vU8("smreq_flags")
			vAssume(u.smFlags != 0) // 0 would mean "IE absent" for the builder
		}
		ies = append(ies, u.update())
		if target < 2 {
			if u.smFlags&0x02 != 0 {
				want++
				wantTEID = append(wantTEID, curTEID[target])
				wantPeer = append(wantPeer, curPeer[target])
			}
			curTEID[target], curPeer[target] = u.teid, u.peer
		}
	}
	if vBool("also_create_far") {
		ies = append(ies, vFARSpec{id: 9, action: ActionForward, uplink: false, teid: 5, peer: [4]byte{1, 2, 3, 4}}.create())
	}
	before := len(e.conn.writes)
	e.vSend(message.NewSessionModificationRequest(0, 0, fs.SEID, 2, 0, ies...))
	m := e.vExpectReply("mod", before, message.MsgTypeSessionModificationResponse, 2).(*message.SessionModificationResponse)
	accepted := vCauseOf(m.Cause) == ie.CauseRequestAccepted
	vObserve("em", accepted, len(e.dp.endMarkers), want)
	if !accepted {
		vCover("rejected")
		vAssert("failed-update-emits-none", len(e.dp.endMarkers) == 0)
		return
	}
	if !e.u.enableEndMarker {
		vCover("feature-off")
		vAssert("feature-off-emits-none", len(e.dp.endMarkers) == 0)
		return
	}
	vCover("accepted")
	vAssert("one-end-marker-per-flagged-found-update", len(e.dp.endMarkers) == want)
	vAssert("emitted-after-the-update-was-programmed", len(e.dp.order) >= 2 && e.dp.order[0] == "msg" && e.dp.order[1] == "endmarkers")
	for k, pkt := range e.dp.endMarkers {
		f := vEMDecode(pkt)
		vCover("marker-checked")
		vAssert("marker-goes-to-old-peer", f.dst == wantPeer[k])
		vAssert("marker-carries-old-teid", f.teid == wantTEID[k])
		vAssert("marker-sourced-from-upf-access-address", f.src == [4]byte{198, 18, 0, 1})
		vAssert("marker-udp-2152", vAnd(f.sport == 2152, f.dport == 2152))
		vAssert("marker-is-gtpu-end-marker", vAnd(f.gtpType == 254, f.proto == 17))
	}
}
