//go:build verif

package pfcpiface

import (
	"context"
	"fmt"
	"math/rand"
	"net"
	"sync"
	"time"

	"github.com/wmnsk/go-pfcp/ie"
	"github.com/wmnsk/go-pfcp/message"
)

// C02 — every request gets exactly one correctly addressed response.

// vExpectReply asserts that exactly one datagram was written since `before`,
// that it is of type want and echoes seq; returns it parsed by go-pfcp.
func (e *vEnv) vExpectReply(tag string, before int, want uint8, seq uint32) message.Message {
	vAssert(tag+":exactly-one-response", len(e.conn.writes) == before+1)
	r := e.vLastReply()
	vAssert(tag+":response-decodes", r != nil)
	vAssert(tag+":response-type-matches-request", r.MessageType() == want)
	vAssert(tag+":sequence-echoed", r.Sequence() == seq)
	return r
}

func vCauseOf(c *ie.IE) uint8 {
	if c == nil {
		return 0
	}
	v, err := c.Cause()
	if err != nil {
		return 0
	}
	return v
}

// H_C02_conn: node-level requests and response-type messages.
func H_C02_conn() {
	e := vNewEnv(vBool("ueip_alloc"))
	e.dp.connected = vBool("dp_connected")
	seq := vU32("seq") & 0xffffff
	before := len(e.conn.writes)
	switch vChoose("kind", 8) {
	case 0:
		vTag("heartbeat")
		e.vSend(message.NewHeartbeatRequest(seq, ie.NewRecoveryTimeStamp(vTS), nil))
		r := e.vExpectReply("hb", before, message.MsgTypeHeartbeatResponse, seq)
		vAssert("hb:no-seid", !r.(*message.HeartbeatResponse).Header.HasSEID())
	case 1:
		vTag("assoc-setup")
		e.vSend(message.NewAssociationSetupRequest(seq, ie.NewNodeID("", "", "cp2.test"), ie.NewRecoveryTimeStamp(vTS)))
		r := e.vExpectReply("as", before, message.MsgTypeAssociationSetupResponse, seq).(*message.AssociationSetupResponse)
		c := vCauseOf(r.Cause)
		vObserve("as", c)
		vAssert("as:accepted-iff-datapath-connected", (c == ie.CauseRequestAccepted) == e.dp.connected)
		vAssert("as:rejected-otherwise", vImplies(!e.dp.connected, c == ie.CauseRequestRejected))
		vAssert("as:node-id-present", r.NodeID != nil)
		if c == ie.CauseRequestAccepted {
			vAssert("as:remote-node-recorded", e.pc.nodeID.remote == "cp2.test")
		}
	case 2:
		vTag("assoc-release")
		e.vSend(message.NewAssociationReleaseRequest(seq, ie.NewNodeID("", "", "cp.test")))
		r := e.vExpectReply("ar", before, message.MsgTypeAssociationReleaseResponse, seq).(*message.AssociationReleaseResponse)
		vAssert("ar:accepted", vCauseOf(r.Cause) == ie.CauseRequestAccepted)
	case 3:
		vTag("pfd")
		e.vSend(message.NewPFDManagementRequest(seq, ie.NewApplicationIDsPFDs(ie.NewApplicationID("app1"),
			ie.NewPFDContext(ie.NewPFDContents("permit out ip from 10.0.0.1 to assigned", "", "", "", "", nil, nil, nil)))))
		r := e.vExpectReply("pfd", before, message.MsgTypePFDManagementResponse, seq).(*message.PFDManagementResponse)
		vAssert("pfd:accepted", vCauseOf(r.Cause) == ie.CauseRequestAccepted)
	case 4:
		vTag("hb-response")
		e.vSend(message.NewHeartbeatResponse(seq, ie.NewRecoveryTimeStamp(vTS)))
		vAssert("responses-are-never-answered", len(e.conn.writes) == before)
	case 5:
		vTag("as-response")
		e.vSend(message.NewAssociationSetupResponse(seq, ie.NewNodeID("", "", "cp.test"), ie.NewCause(ie.CauseRequestAccepted), ie.NewRecoveryTimeStamp(vTS)))
		vAssert("responses-are-never-answered", len(e.conn.writes) == before)
	case 6:
		vTag("report-response")
		e.vSend(message.NewSessionReportResponse(0, 0, vU64("seid"), seq, 0, ie.NewCause(vU8("cause"))))
		vAssert("responses-are-never-answered", len(e.conn.writes) == before)
	case 7:
		vTag("unsupported-type")
		e.vSend(message.NewSessionSetDeletionRequest(seq, ie.NewNodeID("", "", "cp.test"), nil))
		vAssert("unsupported-request-is-dropped", len(e.conn.writes) == before)
	}
	vCover("conn")
}

var vC02Steps = 2

// H_C02_session: establishment followed by further session requests.
func H_C02_session() {
	alloc := vBool("ueip_alloc")
	e := vNewEnv(alloc)
	e.pc.maxRetries = 2
	seq := vU32("seq") & 0xffffff
	cp := vU64("cpseid")
	pdrs, fars, qers := vBaselineRules("a_")
	pdrs[0].choose = vBool("choose_fteid")
	if alloc {
		pdrs[0].ueChoose = vBool("choose_ueip")
		pdrs[1].ueChoose = pdrs[0].ueChoose
	}
	node := "cp.test"
	if vBool("wrong_node") {
		node = "other.test"
	}
	sent := pdrs
	if vBool("downlink_pdr_first") {
		sent = []vPDRSpec{pdrs[1], pdrs[0]} // the order of the Create PDR IEs is the CP's choice
	}
	before := len(e.conn.writes)
	e.vSend(vEstablishment(seq, cp, node, sent, fars, qers))
	r := e.vExpectReply("est", before, message.MsgTypeSessionEstablishmentResponse, seq).(*message.SessionEstablishmentResponse)
	c := vCauseOf(r.Cause)
	vObserve("est", c, len(e.dp.msgs))
	if c != ie.CauseRequestAccepted {
		vCover("est-rejected")
		vAssert("est-rejected:has-rejection-cause", c >= 64)
		vAssert("est-rejected:not-stored", len(e.pc.store.GetAllSessions()) == 0)
		return
	}
	vCover("est-accepted")
	vAssert("est:node-matched", node == "cp.test")
	vAssert("est:seid-is-cp-seid", r.SEID() == cp)
	vAssert("est:node-id-present", r.NodeID != nil)
	nid, _ := r.NodeID.NodeID()
	vAssert("est:node-id-is-agents", nid == "upf.test")
	vAssert("est:up-fseid-present", r.UPFSEID != nil)
	fs, err := r.UPFSEID.FSEID()
	vAssert("est:up-fseid-decodes", err == nil)
	vAssert("est:up-fseid-nonzero", fs.SEID != 0)
	vAssert("est:up-fseid-has-n4-address", vAnd(len(fs.IPv4Address) == 4, vAnd(fs.IPv4Address[0] == 10, fs.IPv4Address[3] == 1)))
	wantCreated := 0
	if pdrs[0].choose {
		wantCreated++
	}
	if pdrs[0].ueChoose {
		// one address is chosen per session (both PDRs get the same one); it is
		// reported once, under the downlink PDR
		wantCreated++
	}
	vAssert("est:one-created-pdr-per-up-chosen-value", len(r.CreatedPDR) == wantCreated)
	up := fs.SEID
	ups := []uint64{up} // UP SEIDs of every live session

	// later requests are addressed by the UP F-SEID
	for step := 0; step < vC02Steps; step++ {
		seq2 := vU32("seq_n") & 0xffffff
		before = len(e.conn.writes)
		switch vChoose("next", 5) {
		case 0:
			vTag("mod-known")
			newCP := vBool("new_cpfseid")
			ies := []*ie.IE{}
			if newCP {
				cp = vU64("cpseid2")
				ies = append(ies, vCPFSEID(cp))
			}
			u := fars[1]
			u.teid = vU32("new_gnb_teid")
			ies = append(ies, u.update())
			e.vSend(message.NewSessionModificationRequest(0, 0, up, seq2, 0, ies...))
			m := e.vExpectReply("mod", before, message.MsgTypeSessionModificationResponse, seq2).(*message.SessionModificationResponse)
			mc := vCauseOf(m.Cause)
			vObserve("mod", mc)
			if mc == ie.CauseRequestAccepted {
				vCover("mod-accepted")
				vAssert("mod:seid-is-current-cp-seid", m.SEID() == cp)
			} else {
				vAssert("mod:rejection-cause", mc >= 64)
				return
			}
		case 1:
			vTag("mod-unknown")
			other := vU64("unknown_seid")
			for _, k := range ups {
				vAssume(other != k)
			}
			e.vSend(message.NewSessionModificationRequest(0, 0, other, seq2, 0, fars[1].update()))
			m := e.vExpectReply("modu", before, message.MsgTypeSessionModificationResponse, seq2).(*message.SessionModificationResponse)
			vAssert("modu:rejected", vCauseOf(m.Cause) >= 64)
			vAssert("modu:seid-zero", m.SEID() == 0)
			vCover("mod-unknown")
		case 2:
			vTag("del-known")
			e.vSend(vDeletion(seq2, up))
			d := e.vExpectReply("del", before, message.MsgTypeSessionDeletionResponse, seq2).(*message.SessionDeletionResponse)
			dc := vCauseOf(d.Cause)
			vObserve("del", dc)
			if dc == ie.CauseRequestAccepted {
				vCover("del-accepted")
				vAssert("del:seid-is-current-cp-seid", d.SEID() == cp)
				// the session is gone: the same request is now rejected with SEID 0
				before = len(e.conn.writes)
				e.vSend(vDeletion(seq2+1, up))
				d2 := e.vExpectReply("del2", before, message.MsgTypeSessionDeletionResponse, (seq2+1)&0xffffff).(*message.SessionDeletionResponse)
				vAssert("del2:rejected", vCauseOf(d2.Cause) >= 64)
				vAssert("del2:seid-zero", d2.SEID() == 0)
			} else {
				vAssert("del:rejection-cause", dc >= 64)
			}
			return
		case 3:
			vTag("del-unknown")
			other := vU64("unknown_seid")
			for _, k := range ups {
				vAssume(other != k)
			}
			e.vSend(vDeletion(seq2, other))
			d := e.vExpectReply("delu", before, message.MsgTypeSessionDeletionResponse, seq2).(*message.SessionDeletionResponse)
			vAssert("delu:rejected", vCauseOf(d.Cause) >= 64)
			vAssert("delu:seid-zero", d.SEID() == 0)
			vCover("del-unknown")
		case 4:
			vTag("second-est")
			cpB := vU64("cpseid_b") // may equal the first session's CP SEID
			p2, f2, q2 := vBaselineRules("b_")
			e.vSend(vEstablishment(seq2, cpB, "cp.test", p2, f2, q2))
			r2 := e.vExpectReply("est2", before, message.MsgTypeSessionEstablishmentResponse, seq2).(*message.SessionEstablishmentResponse)
			if vCauseOf(r2.Cause) == ie.CauseRequestAccepted {
				vCover("second-accepted")
				vAssert("est2:seid-is-its-cp-seid", r2.SEID() == cpB)
				fs2, _ := r2.UPFSEID.FSEID()
				vAssert("est2:up-fseid-nonzero", fs2.SEID != 0)
				vAssert("est2:up-fseid-differs-from-live-session", fs2.SEID != up)
				ups = append(ups, fs2.SEID)
			}
		}
	}
}

// vC02Env: an association on the thread-safe fakes (for harnesses in which
// more than one goroutine of the agent sends on the association's socket).
func vC02Env() (*PFCPConn, *vTConn) {
	conn := vNewTConn(9000)
	u := &upf{accessIP: net.IP{198, 18, 0, 1}, coreIP: net.IP{198, 19, 0, 1}, nodeID: "upf.test", dnn: "internet",
		fteidGenerator: NewFTEIDGenerator(), datapath: &vTDatapath{creates: map[uint64]int{}, dels: map[uint64]int{}},
		maxReqRetries: 0, respTimeout: time.Second, reportNotifyChan: make(chan uint64, 16), hbInterval: time.Hour}
	pc := &PFCPConn{ctx: context.Background(), Conn: conn, ts: recoveryTS{local: vTS}, rng: rand.New(&vRandSource{counter: true}),
		maxRetries: 2, store: NewInMemoryStore(), upf: u, done: make(chan string, 4), shutdown: make(chan struct{}),
		InstrumentPFCP: &vTMetrics{}, hbReset: make(chan struct{}, 100)}
	pc.setLocalNodeID(u.nodeID)
	pc.nodeID.remote = "cp.test"
	return pc, conn
}

// vC02CheckPair: the socket saw exactly the response to the peer's heartbeat
// (sequence number s1) and the agent's own request (sequence number s2).
func vC02CheckPair(writes [][]byte, s1, s2 uint32) string {
	if len(writes) != 2 {
		return fmt.Sprintf("%d datagrams written, want 2", len(writes))
	}
	resp, req := 0, 0
	for _, w := range writes {
		m, err := message.Parse(w)
		if err != nil {
			return "undecodable datagram written"
		}
		switch {
		case m.MessageType() == message.MsgTypeHeartbeatResponse && m.Sequence() == s1:
			resp++
		case m.MessageType() == message.MsgTypeHeartbeatRequest && m.Sequence() == s2:
			req++
		}
	}
	if resp != 1 || req != 1 {
		return fmt.Sprintf("the response to the peer's request was written %d times, the agent's own request %d times (want 1 and 1)", resp, req)
	}
	return ""
}

// H_C02_concsend: the reader goroutine answers the peer's Heartbeat Request
// while another goroutine of the association (the heartbeat monitor) sends
// the agent's own Heartbeat Request on the same socket - under every
// interleaving at the socket's critical section each datagram leaves exactly
// once and intact: the request still gets exactly one, correct response.
func H_C02_concsend() {
	pc, conn := vC02Env()
	s1 := vU32("peer_seq") & 0xffffff
	s2 := vU32("own_seq") & 0xffffff
	vAssume(s1 != s2)
	req := vMarshal(message.NewHeartbeatRequest(s1, ie.NewRecoveryTimeStamp(vTS), nil))
	own := message.NewHeartbeatRequest(s2, ie.NewRecoveryTimeStamp(vTS), nil)
	vPreemptAtLocks(3)
	vPreemptOn(&conn.mu)
	var wg sync.WaitGroup
	wg.Add(2)
	go func() { defer wg.Done(); pc.HandlePFCPMsg(req) }()
	go func() { defer wg.Done(); pc.SendPFCPMsg(own) }()
	wg.Wait()
	vJoin()
	_, writes, _ := conn.snapshot()
	vAssert("concurrent-senders:each-datagram-leaves-once-and-intact", vC02CheckPair(writes, s1, s2) == "")
	vCover("concsend")
}

// R_C02_stress_concsend: native counterpart, many rounds.
func R_C02_stress_concsend() {
	deadline := time.Now().Add(40 * time.Second)
	for round := 0; time.Now().Before(deadline); round++ {
		pc, conn := vC02Env()
		conn.jitter = true
		s1, s2 := uint32(round&0x7fffff)+1, uint32(round&0x7fffff)+0x800000
		req := vMarshal(message.NewHeartbeatRequest(s1, ie.NewRecoveryTimeStamp(vTS), nil))
		own := message.NewHeartbeatRequest(s2, ie.NewRecoveryTimeStamp(vTS), nil)
		var start, wg sync.WaitGroup
		start.Add(1)
		wg.Add(2)
		go func() { defer wg.Done(); start.Wait(); pc.HandlePFCPMsg(req) }()
		go func() { defer wg.Done(); start.Wait(); pc.SendPFCPMsg(own) }()
		start.Done()
		wg.Wait()
		_, writes, _ := conn.snapshot()
		if msg := vC02CheckPair(writes, s1, s2); msg != "" {
			vStressFail(fmt.Sprintf("round %d: %s", round, msg))
		}
	}
}
