//go:build verif

package pfcpiface

// C17 — port ranges are expanded exactly or refused.

// refInRange is the documented meaning of a portRange: 0-0 (the zero value) and
// 0-65535 mean "every port"; anything else is the closed interval.
func refInRange(p, lo, hi uint16) bool {
	wild := vOr(vAnd(lo == 0, hi == 0), vAnd(lo == 0, hi == 65535))
	return vOr(wild, vAnd(lo <= p, p <= hi))
}

func refIsWild(lo, hi uint16) bool {
	return vOr(vAnd(lo == 0, hi == 0), vAnd(lo == 0, hi == 65535))
}

// refIsTrueRange: neither wildcard nor a single port.
func refIsTrueRange(lo, hi uint16) bool {
	exact := vAnd(lo == hi, hi != 0)
	return vAnd(vNot(exact), vNot(refIsWild(lo, hi)))
}

// H_C17_exact: CreatePortRangeCartesianProduct with both ranges and a probe
// packet fully symbolic.
func H_C17_exact() {
	sl, sh := vU16("src_lo"), vU16("src_hi")
	dl, dh := vU16("dst_lo"), vU16("dst_hi")
	// precondition: ranges reaching this function are not inverted
	// (parsePort refuses low > high; newRangeMatchPortRange maps it to the zero value)
	vAssume(sl <= sh)
	vAssume(dl <= dh)
	sp, dp := vU16("probe_sport"), vU16("probe_dport")

	src := portRange{low: sl, high: sh}
	dst := portRange{low: dl, high: dh}
	rules, err := CreatePortRangeCartesianProduct(src, dst)

	srcTrue, dstTrue := refIsTrueRange(sl, sh), refIsTrueRange(dl, dh)
	// width of a true range as a 32-bit number (no wrap)
	sw := uint32(sh) - uint32(sl) + 1
	dw := uint32(dh) - uint32(dl) + 1
	mustRefuse := vOr(vAnd(srcTrue, dstTrue), vOr(vAnd(srcTrue, sw > 100), vAnd(dstTrue, dw > 100)))
	vObserve("refused", err != nil, len(rules))
	if err != nil {
		vCover("refused")
		vAssert("refuse-only-unrepresentable", mustRefuse)
		vAssert("refuse-returns-no-rules", len(rules) == 0)
		return
	}
	vCover("accepted")
	vAssert("accept-only-representable", vNot(mustRefuse))
	vAssert("at-least-one-rule", len(rules) > 0)

	matched := false
	srcWildOK, dstWildOK, srcMaskOK, dstMaskOK := true, true, true, true
	for _, r := range rules {
		m := vAnd(sp&r.srcMask == r.srcPort&r.srcMask, dp&r.dstMask == r.dstPort&r.dstMask)
		matched = vOr(matched, m)
		// a wildcard (zero mask) is produced only for the full range / zero value
		srcWildOK = vAnd(srcWildOK, vImplies(r.srcMask == 0, refIsWild(sl, sh)))
		dstWildOK = vAnd(dstWildOK, vImplies(r.dstMask == 0, refIsWild(dl, dh)))
		// masks are either exact or wildcard in this strategy
		srcMaskOK = vAnd(srcMaskOK, vOr(r.srcMask == 0, r.srcMask == 0xffff))
		dstMaskOK = vAnd(dstMaskOK, vOr(r.dstMask == 0, r.dstMask == 0xffff))
	}
	vAssert("src-wildcard-only-for-full-range", srcWildOK)
	vAssert("dst-wildcard-only-for-full-range", dstWildOK)
	vAssert("src-mask-exact-or-wild", srcMaskOK)
	vAssert("dst-mask-exact-or-wild", dstMaskOK)
	want := vAnd(refInRange(sp, sl, sh), refInRange(dp, dl, dh))
	vObserve("match", matched, want)
	vAssert("rules-match-exactly-the-ranges", matched == want)
}

// H_C17_class: the three classes partition all ranges; Width is the number of
// ports; the trivial ternary conversion is exact.
func H_C17_class() {
	lo, hi := vU16("lo"), vU16("hi")
	vAssume(lo <= hi)
	p := vU16("probe")
	pr := portRange{low: lo, high: hi}
	w, e, r := pr.isWildcardMatch(), pr.isExactMatch(), pr.isRangeMatch()
	one := vOr(vAnd(w, vAnd(vNot(e), vNot(r))), vOr(vAnd(e, vAnd(vNot(w), vNot(r))), vAnd(r, vAnd(vNot(w), vNot(e)))))
	vAssert("classes-partition", one)
	vAssert("wild-iff-ref", w == refIsWild(lo, hi))
	vAssert("range-iff-ref", r == refIsTrueRange(lo, hi))
	width := pr.Width()
	vObserve("class", w, e, r, width)
	vAssert("width-of-nonwild", vImplies(vNot(w), uint32(width) == uint32(hi)-uint32(lo)+1))
	t, err := pr.asTrivialTernaryMatch()
	if err != nil {
		vCover("trivial-refused")
		vAssert("trivial-refused-only-for-true-range", r)
		return
	}
	vCover("trivial-ok")
	vAssert("trivial-ok-only-for-wild-or-exact", vOr(w, e))
	vAssert("trivial-exact", (p&t.mask == t.port&t.mask) == refInRange(p, lo, hi))
}

// vPortMask is the mask the Ternary strategy chooses for the block starting at
// port in a range ending at end: under the engine the real function literal
// portMask of asComplexTernaryMatches is executed directly; natively it is read
// off the first rule of the real expansion of [port, end] (same literal, first
// loop iteration).
func vPortMask(port, end uint16) uint16 {
	if vInEngine() {
		return vAnonU16x2("(github.com/omec-project/upf-epc/pfcpiface.portRange).asComplexTernaryMatches", "port,end", port, end)
	}
	rules, err := portRange{low: port, high: end}.asComplexTernaryMatches(Ternary)
	if err != nil || len(rules) == 0 {
		return 0
	}
	return rules[0].mask
}

// H_C17_ternstep: the inductive step of "the Ternary rules cover exactly
// [low, high]": for ANY block start port <= end the mask chosen by portMask
// describes an aligned block [port, top] that starts at port, does not wrap,
// stays inside [port, end], and whose mask-match is exactly membership of the
// block. The expansion loop continues from top + 1 while that is <= high
// (H_C17_tern runs the loop itself for expansions of bounded length), so by
// induction the blocks tile [low, high] and the loop terminates.
func H_C17_ternstep() {
	port, end := vU16("port"), vU16("end")
	vAssume(port < end)                           // port == end is the exact fast path (H_C17_class)
	vAssume(vNot(vAnd(port == 0, end == 0xffff))) // the wildcard fast path, natively
	p := vU16("probe")
	mask := vPortMask(port, end)
	base := port & mask
	top := base + ^mask
	vObserve("mask", mask)
	vAssert("block-starts-at-port", base == port)
	vAssert("block-no-wrap", top >= base)
	vAssert("block-inside-range", top <= end)
	vAssert("block-membership-is-mask-match", (p&mask == port&mask) == vAnd(base <= p, p <= top))
	inv := ^mask
	vAssert("mask-is-prefix", inv&(inv+1) == 0)
}

// H_C17_tern: the whole Ternary expansion (the real loop around portMask), for
// every range at most vTernWidth ports wide (the number of rules is bounded by
// 2*log2(width)): the rules match exactly [low, high], consecutive blocks are
// adjacent.
func H_C17_tern() {
	lo, hi := vU16("lo"), vU16("hi")
	vAssume(lo <= hi)
	vAssume(hi-lo < uint16(vTernWidth))
	p := vU16("probe")
	pr := portRange{low: lo, high: hi}
	rules, err := pr.asComplexTernaryMatches(Ternary)
	vAssert("ternary-never-refuses", err == nil)
	matched := false
	for _, r := range rules {
		matched = vOr(matched, p&r.mask == r.port&r.mask)
	}
	vCover("tern-complete")
	vObserve("tern", len(rules), matched)
	vAssert("ternary-rules-match-exactly", matched == refInRange(p, lo, hi))
}

var vTernWidth = 8
