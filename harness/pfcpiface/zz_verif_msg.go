//go:build verif

package pfcpiface

import (
	"net"

	"github.com/wmnsk/go-pfcp/ie"
	"github.com/wmnsk/go-pfcp/message"
)

// Builders of well-formed PFCP requests with symbolic leaf values. The shape
// of a message (which IEs are present) is concrete on a path; TEIDs, addresses,
// identifiers, precedences, rates and flags are symbolic.

type vPDRSpec struct {
	uplink    bool
	id        uint16
	prec      uint32
	teid      uint32
	choose    bool // F-TEID with CHOOSE
	ue        [4]byte
	ueChoose  bool // UE IP with CHV4 and no address
	farID     uint32
	qerIDs    []uint32
	sdf       string // "" = no SDF filter
	appID     string // "" = no application id
	n3        [4]byte
}

func vIP4(b [4]byte) net.IP { return net.IP{b[0], b[1], b[2], b[3]} }

func (p vPDRSpec) pdiIEs() []*ie.IE {
	var pdi []*ie.IE
	if p.uplink {
		pdi = append(pdi, ie.NewSourceInterface(ie.SrcInterfaceAccess))
		if p.choose {
			pdi = append(pdi, ie.NewFTEID(0x05, 0, nil, nil, 0)) // V4 + CH
		} else {
			pdi = append(pdi, ie.NewFTEID(0x01, p.teid, vIP4(p.n3), nil, 0))
		}
	} else {
		pdi = append(pdi, ie.NewSourceInterface(ie.SrcInterfaceCore))
		if p.choose {
			pdi = append(pdi, ie.NewFTEID(0x05, 0, nil, nil, 0)) // N9: the UPF chooses the core-side F-TEID too
		}
	}
	if p.ueChoose {
		pdi = append(pdi, ie.NewUEIPAddress(0x10, "", "", 0, 0)) // CHV4 only
	} else {
		pdi = append(pdi, vUEIPAddress(p.ue))
	}
	if p.sdf != "" {
		pdi = append(pdi, ie.NewSDFFilter(p.sdf, "", "", "", 1))
	}
	if p.appID != "" {
		pdi = append(pdi, ie.NewApplicationID(p.appID))
	}
	return pdi
}

// vUEIPAddress builds a UE IP Address IE (V4 flag) from 4 possibly symbolic
// bytes (ie.NewUEIPAddress takes the address as text).
func vUEIPAddress(a [4]byte) *ie.IE {
	return ie.New(ie.UEIPAddress, []byte{0x02, a[0], a[1], a[2], a[3]})
}

func (p vPDRSpec) children() []*ie.IE {
	c := []*ie.IE{
		ie.NewPDRID(p.id),
		ie.NewPrecedence(p.prec),
		ie.NewPDI(p.pdiIEs()...),
	}
	if p.uplink {
		c = append(c, ie.NewOuterHeaderRemoval(0, 0))
	}
	c = append(c, ie.NewFARID(p.farID))
	for _, q := range p.qerIDs {
		c = append(c, ie.NewQERID(q))
	}
	return c
}

func (p vPDRSpec) create() *ie.IE { return ie.NewCreatePDR(p.children()...) }
func (p vPDRSpec) update() *ie.IE { return ie.NewUpdatePDR(p.children()...) }

type vFARSpec struct {
	id      uint32
	action  uint8
	uplink  bool // destination core (uplink FAR) or access (downlink FAR with tunnel)
	teid    uint32
	peer    [4]byte
	smFlags uint8 // update only; 0 = absent
	noFwd   bool
	noOHC   bool // downlink forwarding parameters without Outer Header Creation (UE goes idle)
}

func (f vFARSpec) fwdIEs() []*ie.IE {
	if f.uplink {
		return []*ie.IE{ie.NewDestinationInterface(ie.DstInterfaceCore)}
	}
	if f.noOHC {
		return []*ie.IE{ie.NewDestinationInterface(ie.DstInterfaceAccess)}
	}
	return []*ie.IE{
		ie.NewDestinationInterface(ie.DstInterfaceAccess),
		vOuterHeaderCreation(f.teid, f.peer),
	}
}

// vOuterHeaderCreation: GTP-U/UDP/IPv4 description (0x0100), TEID, IPv4.
func vOuterHeaderCreation(teid uint32, a [4]byte) *ie.IE {
	return ie.New(ie.OuterHeaderCreation, []byte{0x01, 0x00,
		byte(teid >> 24), byte(teid >> 16), byte(teid >> 8), byte(teid), a[0], a[1], a[2], a[3]})
}

func (f vFARSpec) create() *ie.IE {
	c := []*ie.IE{ie.NewFARID(f.id), ie.NewApplyAction(f.action)}
	if !f.noFwd {
		c = append(c, ie.NewForwardingParameters(f.fwdIEs()...))
	}
	return ie.NewCreateFAR(c...)
}

func (f vFARSpec) update() *ie.IE {
	c := []*ie.IE{ie.NewFARID(f.id), ie.NewApplyAction(f.action)}
	fw := f.fwdIEs()
	if f.smFlags != 0 {
		fw = append(fw, ie.NewPFCPSMReqFlags(f.smFlags))
	}
	c = append(c, ie.NewUpdateForwardingParameters(fw...))
	return ie.NewUpdateFAR(c...)
}

type vQERSpec struct {
	id           uint32
	qfi          uint8
	gate         uint8
	ulMbr, dlMbr uint64
	ulGbr, dlGbr uint64
}

func (q vQERSpec) children() []*ie.IE {
	return []*ie.IE{
		ie.NewQERID(q.id),
		ie.NewQFI(q.qfi),
		ie.NewGateStatus(q.gate>>2&3, q.gate&3),
		ie.NewMBR(q.ulMbr, q.dlMbr),
		ie.NewGBR(q.ulGbr, q.dlGbr),
	}
}
func (q vQERSpec) create() *ie.IE { return ie.NewCreateQER(q.children()...) }
func (q vQERSpec) update() *ie.IE { return ie.NewUpdateQER(q.children()...) }

func vSymIP(name string) [4]byte {
	return [4]byte{vU8(name + "0"), vU8(name + "1"), vU8(name + "2"), vU8(name + "3")}
}

// vBaselineRules: one uplink and one downlink PDR, their FARs and one QER,
// all leaf values symbolic.
func vBaselineRules(tag string) ([]vPDRSpec, []vFARSpec, []vQERSpec) {
	ue := vSymIP(tag + "ue")
	qid := vU32(tag + "qer")
	up := vPDRSpec{uplink: true, id: vU16(tag + "pdr_ul"), prec: vU32(tag + "prec_ul"), teid: vU32(tag + "teid"), n3: [4]byte{198, 18, 0, 1},
		ue: ue, farID: vU32(tag + "far_ul"), qerIDs: []uint32{qid}}
	dn := vPDRSpec{uplink: false, id: vU16(tag + "pdr_dl"), prec: vU32(tag + "prec_dl"), ue: ue, farID: vU32(tag + "far_dl"), qerIDs: []uint32{qid}}
	fu := vFARSpec{id: up.farID, action: ActionForward, uplink: true}
	fd := vFARSpec{id: dn.farID, action: ActionForward, uplink: false, teid: vU32(tag + "gnb_teid"), peer: vSymIP(tag + "gnb")}
	q := vQERSpec{id: qid, qfi: vU8(tag+"qfi") & 0x3f, gate: vU8(tag+"gate") & 0xf,
		ulMbr: vU64(tag+"ulmbr") & 0xffffffffff, dlMbr: vU64(tag+"dlmbr") & 0xffffffffff}
	return []vPDRSpec{up, dn}, []vFARSpec{fu, fd}, []vQERSpec{q}
}

func vEstablishment(seq uint32, cpSEID uint64, node string, pdrs []vPDRSpec, fars []vFARSpec, qers []vQERSpec) *message.SessionEstablishmentRequest {
	ies := []*ie.IE{ie.NewNodeID("", "", node), vCPFSEID(cpSEID)}
	for _, p := range pdrs {
		ies = append(ies, p.create())
	}
	for _, f := range fars {
		ies = append(ies, f.create())
	}
	for _, q := range qers {
		ies = append(ies, q.create())
	}
	return message.NewSessionEstablishmentRequest(0, 0, 0, seq, 0, ies...)
}

func vDeletion(seq uint32, seid uint64) *message.SessionDeletionRequest {
	return message.NewSessionDeletionRequest(0, 0, seid, seq, 0)
}
