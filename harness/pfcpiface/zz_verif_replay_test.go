//go:build verif

package pfcpiface

import (
	"encoding/json"
	"fmt"
	"os"
	"testing"
)


// TestVerifReplay runs harnesses natively on concrete input vectors.
//   VERIF_REPLAY=<file>        one replay file (a violation): prints its outcome
//   VERIF_REPLAY_BATCH=<file>  a JSON list of {harness, inputs}: writes all
//                              outcomes to VERIF_REPLAY_OUT
func TestVerifReplay(t *testing.T) {
	if p := os.Getenv("VERIF_REPLAY_BATCH"); p != "" {
		raw, err := os.ReadFile(p)
		if err != nil {
			t.Fatal(err)
		}
		var batch []vReplayFile
		if err := json.Unmarshal(raw, &batch); err != nil {
			t.Fatal(err)
		}
		var out []vReplayResult
		for _, b := range batch {
			h, ok := vHarnesses[b.Harness]
			if !ok {
				out = append(out, vReplayResult{Harness: b.Harness, Kind: "missing"})
				continue
			}
			vSetVars(b.Vars)
			out = append(out, vRunOne(h, b.Harness, b.Inputs))
		}
		vWriteJSON(os.Getenv("VERIF_REPLAY_OUT"), out)
		return
	}
	p := os.Getenv("VERIF_REPLAY")
	if p == "" {
		t.Skip("no replay requested")
	}
	raw, err := os.ReadFile(p)
	if err != nil {
		t.Fatal(err)
	}
	var rf vReplayFile
	if err := json.Unmarshal(raw, &rf); err != nil {
		t.Fatal(err)
	}
	h, ok := vHarnesses[rf.Harness]
	if !ok {
		t.Fatalf("unknown harness %s", rf.Harness)
	}
	vSetVars(rf.Vars)
	res := vRunOne(h, rf.Harness, rf.Inputs)
	b, _ := json.Marshal(res)
	fmt.Printf("VERIF-REPLAY-RESULT %s\n", b)
	if out := os.Getenv("VERIF_REPLAY_OUT"); out != "" {
		vWriteJSON(out, res)
	}
}

// TestVerifRace runs a racer (concurrent exercise of the operations behind a
// lock-discipline harness); meaningful only in a -race build.
func TestVerifRace(t *testing.T) {
	name := os.Getenv("VERIF_RACE")
	if name == "" {
		t.Skip("no racer requested")
	}
	f, ok := vRacers[name]
	if !ok {
		t.Fatalf("unknown racer %s", name)
	}
	vRacing = true
	f()
}
