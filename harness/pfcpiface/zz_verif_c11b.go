//go:build verif

// C11 - reconnection of the shared UP4 datapath by concurrent associations.

package pfcpiface

import (
	"context"
	"fmt"
	"net"
	"sync"
	"sync/atomic"
	"time"

	p4 "github.com/p4lang/p4runtime/go/p4/v1"
	"google.golang.org/genproto/googleapis/rpc/status"
	"google.golang.org/grpc"
	"google.golang.org/grpc/connectivity"
)

// vGrpcP4: a P4Runtime service for the NATIVE run of the reconnection scenario
// (CreateChannel dials a real gRPC channel). It answers arbitration with OK,
// serves the shipped P4Info, accepts every Write and counts the stream
// channels that were opened (one per CreateChannel).
type vGrpcP4 struct {
	p4.UnimplementedP4RuntimeServer
	channels int64
	writes   int64
}

func (s *vGrpcP4) StreamChannel(st p4.P4Runtime_StreamChannelServer) error {
	atomic.AddInt64(&s.channels, 1)
	for {
		m, err := st.Recv()
		if err != nil {
			return nil
		}
		if arb := m.GetArbitration(); arb != nil {
			_ = st.Send(&p4.StreamMessageResponse{Update: &p4.StreamMessageResponse_Arbitration{
				Arbitration: &p4.MasterArbitrationUpdate{DeviceId: arb.DeviceId, ElectionId: arb.ElectionId, Status: &status.Status{Code: 0}}}})
		}
	}
}
func (s *vGrpcP4) GetForwardingPipelineConfig(ctx context.Context, in *p4.GetForwardingPipelineConfigRequest) (*p4.GetForwardingPipelineConfigResponse, error) {
	time.Sleep(300 * time.Microsecond) // a switch takes its time: the window in which a second association arrives
	return &p4.GetForwardingPipelineConfigResponse{Config: &p4.ForwardingPipelineConfig{P4Info: vP4InfoShipped()}}, nil
}
func (s *vGrpcP4) Write(ctx context.Context, in *p4.WriteRequest) (*p4.WriteResponse, error) {
	atomic.AddInt64(&s.writes, 1)
	return &p4.WriteResponse{}, nil
}
func (s *vGrpcP4) Read(in *p4.ReadRequest, st p4.P4Runtime_ReadServer) error { return nil }

var vGrpcP4Addr string
var vGrpcP4Srv *vGrpcP4

func vStartGrpcP4() (*vGrpcP4, string) {
	if vGrpcP4Srv != nil {
		return vGrpcP4Srv, vGrpcP4Addr
	}
	lis, err := net.Listen("tcp", "127.0.0.1:0")
	if err != nil {
		panic("harness: cannot listen on loopback: " + err.Error())
	}
	srv := grpc.NewServer()
	vGrpcP4Srv = &vGrpcP4{}
	p4.RegisterP4RuntimeServer(srv, vGrpcP4Srv)
	go func() { _ = srv.Serve(lis) }()
	vGrpcP4Addr = lis.Addr().String()
	return vGrpcP4Srv, vGrpcP4Addr
}

// vDisconnectedUP4: the UP4 plug-in as SetUpfInfo leaves it when the switch
// could not be reached yet (no client, not connected).
func vDisconnectedUP4(host string) *UP4 {
	u := &UP4{
		conf:          P4rtcInfo{SliceID: 0, DefaultTC: 3, AccessIP: "198.18.0.1/32", ClearStateOnRestart: true},
		host:          host,
		deviceID:      1,
		accessIP:      &net.IPNet{IP: net.IP{198, 18, 0, 1}, Mask: net.IPMask{255, 255, 255, 255}},
		ueIPPool:      &net.IPNet{IP: net.IP{10, 250, 0, 0}, Mask: net.IPMask{255, 255, 0, 0}},
		meters:        make(map[meterID]meter),
		ueAddrToFSEID: make(map[uint32]uint64),
		fseidToUEAddr: make(map[uint64]uint32),
		counters:      make([]counter, 2),
	}
	u.initTunnelPeerIDs()
	u.initApplicationIDs()
	return u
}

// H_C11_reconnect: the P4Runtime channel is down and two associations reach the
// shared UP4 plug-in at about the same time (each request starts with
// tryConnect): under every interleaving of their critical sections the channel
// is set up and the datapath (re-)initialised exactly ONCE - a second set-up
// would replace the client and translator the first association is already
// programming with, and clear the tables under its feet.
func H_C11_reconnect() {
	var created int64
	host := "harness:0"
	var srv *vP4Server
	if vInEngine() {
		info := vP4InfoShipped()
		srv = vNewP4Server(info)
		vOverride("github.com/omec-project/upf-epc/pfcpiface.CreateChannel", func(h string, deviceID uint64) (*P4rtClient, error) {
			created++
			return &P4rtClient{client: srv, deviceID: deviceID, P4Info: info, stream: &vStream{}}, nil
		})
		vOverride("(*github.com/omec-project/upf-epc/pfcpiface.P4rtClient).CheckStatus", func(c *P4rtClient) connectivity.State { return connectivity.Ready })
		vSkipGo("(*github.com/omec-project/upf-epc/pfcpiface.UP4).listenToDDNs")
		vSkipGo("(*github.com/omec-project/upf-epc/pfcpiface.UP4).endMarkerSendLoop")
	} else {
		g, addr := vStartGrpcP4()
		host = addr
		atomic.StoreInt64(&g.channels, 0)
		defer func() { created = atomic.LoadInt64(&g.channels) }()
	}
	u := vDisconnectedUP4(host)
	vPreemptAtLocks(3)
	vPreemptOn(&u.tryConnectMu)
	vPreemptOn(&u.connectedMu)
	var wg sync.WaitGroup
	errs := make([]error, 2)
	for k := 0; k < 2; k++ {
		wg.Add(1)
		go func(k int) {
			defer wg.Done()
			errs[k] = u.tryConnect()
		}(k)
	}
	wg.Wait()
	vJoin()
	if !vInEngine() {
		created = atomic.LoadInt64(&vGrpcP4Srv.channels)
	}
	vAssert("reconnect:both-associations-find-the-datapath-connected", errs[0] == nil && errs[1] == nil && u.IsConnected(nil))
	vAssert("reconnect:the-channel-is-set-up-exactly-once", created == 1)
	vCover("reconnect")
}

// R_C11_stress_reconnect: native counterpart on a real loopback gRPC channel.
func R_C11_stress_reconnect() {
	g, addr := vStartGrpcP4()
	deadline := time.Now().Add(40 * time.Second)
	for round := 0; round < 600 && time.Now().Before(deadline); round++ {
		atomic.StoreInt64(&g.channels, 0)
		u := vDisconnectedUP4(addr)
		var start, wg sync.WaitGroup
		start.Add(1)
		for k := 0; k < 3; k++ {
			wg.Add(1)
			go func() {
				defer wg.Done()
				start.Wait()
				_ = u.tryConnect()
			}()
		}
		start.Done()
		wg.Wait()
		if n := atomic.LoadInt64(&g.channels); n != 1 {
			vStressFail(fmt.Sprintf("round %d: the P4Runtime channel was set up %d times by concurrent associations (want 1)", round, n))
		}
		if u.p4client != nil && u.p4client.conn != nil {
			_ = u.p4client.conn.Close()
		}
	}
}
