//go:build verif

// Native side of the harness intrinsics. Under the symbolic engine every v*
// function below is intercepted (its body is never executed); in a native
// build they replay a vector of concrete input values produced by the engine
// from a solver model, so that a harness is an ordinary Go function.

package pfcpiface

import (
	"encoding/json"
	"fmt"
	"os"
	"runtime"
	"runtime/debug"
	"strings"
	"sync/atomic"
	"time"
	_ "unsafe"
)

// vTimeHook is time.verifNow of the patched time package of the native replay
// build (see clockOverlay in gosym). Under the engine it is an ordinary unused
// variable.
//
//go:linkname vTimeHook time.verifNow
var vTimeHook func() (time.Time, bool)

// vClockBase anchors the replayed monotonic readings.
var vClockBase = time.Unix(1700000000, 0)

// vClockNext replays the engine's clock model: clock reads made directly by
// repository code get the readings of the model (inputs clk_N, in order); every
// other caller (zap, context, grpc, testing, ...) keeps the real clock.
func vClockNext() (time.Time, bool) {
	if vS == nil {
		return time.Time{}, false
	}
	pc, _, _, ok := runtime.Caller(2)
	if !ok {
		return time.Time{}, false
	}
	fn := runtime.FuncForPC(pc)
	if fn == nil || !strings.HasPrefix(fn.Name(), "github.com/omec-project/upf-epc/") {
		return time.Time{}, false
	}
	for vS.clkPos < len(vS.inputs) {
		in := vS.inputs[vS.clkPos]
		vS.clkPos++
		if strings.HasPrefix(stripIdx(in.Name), "clk_") {
			return vClockBase.Add(time.Duration(in.Val)), true
		}
	}
	// more clock reads than the model made: keep increasing
	vS.clkExtra++
	return vClockBase.Add(time.Duration(1<<62) + time.Duration(vS.clkExtra)), true
}

func vStack() string { return string(debug.Stack()) }

type vInputVal struct {
	Name  string `json:"name"`
	Width int    `json:"width"`
	Val   uint64 `json:"val"`
	Str   string `json:"str,omitempty"`
	IsStr bool   `json:"is_str,omitempty"`
}

type vObs struct {
	Label string `json:"label"`
	Val   string `json:"val"`
}

type vAssertFailure struct{ label string }
type vAssumeFailure struct{}

type vState struct {
	inputs []vInputVal
	pos    int
	obs    []vObs
	tags   []string
	covers []string
	failed []string // labels of failed assertions
	misaligned string
	clkPos     int
	clkExtra   int
}

var vS *vState

// vRacing: a racer is running (TestVerifRace): there is no replay vector and
// several goroutines may ask for inputs; each request gets the next value of a
// shared counter (distinct, non-zero, truncated to the width).
var vRacing bool
var vRaceCtr uint64

func vNext(name string, width int) vInputVal {
	if vS == nil {
		if vRacing {
			n := atomic.AddUint64(&vRaceCtr, 1)
			if width < 64 {
				n &= 1<<uint(width) - 1
			}
			return vInputVal{Name: name, Width: width, Val: n}
		}
		panic("verif: v* input requested outside a replay")
	}
	for vS.pos < len(vS.inputs) && (strings.HasPrefix(stripIdx(vS.inputs[vS.pos].Name), "clk_") || strings.HasPrefix(stripIdx(vS.inputs[vS.pos].Name), "aux_") || strings.HasPrefix(stripIdx(vS.inputs[vS.pos].Name), "sched_")) {
		vS.pos++ // engine-internal inputs (clock readings, token counts) have no native counterpart
	}
	if vS.pos >= len(vS.inputs) {
		// inputs the model never constrained beyond the recorded ones: zero
		if vS.misaligned == "" {
			vS.misaligned = "replay vector exhausted at " + name
		}
		return vInputVal{Name: name, Width: width}
	}
	in := vS.inputs[vS.pos]
	vS.pos++
	if want := stripIdx(in.Name); want != vClean(name) && vS.misaligned == "" {
		vS.misaligned = fmt.Sprintf("input %d: vector has %q, harness asked for %q", vS.pos-1, want, vClean(name))
	}
	return in
}

// stripIdx removes the "in<N>_" prefix the engine puts in front of a name.
func stripIdx(n string) string {
	if strings.HasPrefix(n, "in") {
		if i := strings.IndexByte(n, '_'); i > 0 {
			return n[i+1:]
		}
	}
	return n
}

func vClean(name string) string {
	return strings.Map(func(r rune) rune {
		if r >= 'a' && r <= 'z' || r >= 'A' && r <= 'Z' || r >= '0' && r <= '9' || r == '_' {
			return r
		}
		return '_'
	}, name)
}

func vU8(name string) uint8   { return uint8(vNext(name, 8).Val) }
func vU16(name string) uint16 { return uint16(vNext(name, 16).Val) }
func vU32(name string) uint32 { return uint32(vNext(name, 32).Val) }
func vU64(name string) uint64 { return vNext(name, 64).Val }
func vInt(name string) int    { return int(vNext(name, 64).Val) }
func vBool(name string) bool  { return vNext(name, 0).Val != 0 }
func vStr(name string) string { return vNext(name, -1).Str }

func vBytes(name string, n int) []byte {
	out := make([]byte, n)
	for j := range out {
		out[j] = vU8(fmt.Sprintf("%s_%d", name, j))
	}
	return out
}

// vChoose returns a value in [0, n).
func vChoose(name string, n int) int {
	v := int(vNext(name, 64).Val)
	if v < 0 || v >= n {
		panic(vAssumeFailure{})
	}
	return v
}

func vAssume(c bool) {
	if !c {
		panic(vAssumeFailure{})
	}
}

// vAssert records a failed assertion and ends the harness run.
func vAssert(label string, c bool) {
	if !c {
		vS.failed = append(vS.failed, label)
		panic(vAssertFailure{label})
	}
}

func vCover(label string) { vS.covers = append(vS.covers, label) }
func vTag(s string)       { vS.tags = append(vS.tags, s) }

func vObserve(label string, vals ...interface{}) {
	var parts []string
	for _, v := range vals {
		parts = append(parts, vFmt(v))
	}
	vS.obs = append(vS.obs, vObs{label, strings.Join(parts, ",")})
}

func vFmt(v interface{}) string {
	switch x := v.(type) {
	case bool:
		if x {
			return "true"
		}
		return "false"
	case string:
		return fmt.Sprintf("%q", x)
	case int, int8, int16, int32, int64, uint, uint8, uint16, uint32, uint64, uintptr:
		return fmt.Sprintf("%d", x)
	case []byte:
		var p []string
		for _, b := range x {
			p = append(p, fmt.Sprintf("%d", b))
		}
		return "[" + strings.Join(p, " ") + "]"
	case []uint32:
		var p []string
		for _, b := range x {
			p = append(p, fmt.Sprintf("%d", b))
		}
		return "[" + strings.Join(p, " ") + "]"
	case error:
		if x == nil {
			return "nil"
		}
		return "err"
	case nil:
		return "nil"
	}
	return fmt.Sprintf("%v", v)
}

// Branch-free boolean connectives: harness oracles use these instead of
// && / || so that an oracle never forks a path.
func vAnd(a, b bool) bool     { return a && b }
func vOr(a, b bool) bool      { return a || b }
func vNot(a bool) bool        { return !a }
func vImplies(a, b bool) bool { return !a || b }
func vIff(a, b bool) bool     { return a == b }

func vIteU64(c bool, a, b uint64) uint64 {
	if c {
		return a
	}
	return b
}

func vIteU32(c bool, a, b uint32) uint32 {
	if c {
		return a
	}
	return b
}

func vIteU16(c bool, a, b uint16) uint16 {
	if c {
		return a
	}
	return b
}

func vIteU8(c bool, a, b uint8) uint8 {
	if c {
		return a
	}
	return b
}

func vIteBool(c bool, a, b bool) bool {
	if c {
		return a
	}
	return b
}

func vInEngine() bool                            { return false }

// vAnonU16x2 calls, under the engine only, the function literal of parent whose
// parameters are named params (the real SSA body, captured function literals
// resolved). Natively a harness must reach the literal through its parent.
func vAnonU16x2(parent, params string, a, b uint16) uint16 {
	panic("vAnonU16x2 is engine-only")
}
func vSkipGo(name string)                        {}
func vOverride(target string, fn interface{})    {}
func vPeer(ch interface{})                       {}
func vGuarded(obj, mu interface{}, name string)  {}
func vHeld(mu interface{}) bool                  { return true }

// vPreemptAtLocks(n): under the engine, every mutex acquisition made while another
// goroutine of the harness can run becomes a scheduling decision (at most n
// preemptions per path). vJoin waits, under the engine, for the goroutines the
// harness started (natively the harness uses its own WaitGroup). A violation of
// such a harness is confirmed natively by its stress function, which runs the
// scenario with real goroutines and calls vStressFail when it sees the failure.
func vPreemptAtLocks(n int) {}

// vConcreteClock(stepNs): under the engine the clock reads of repository code
// return concrete instants stepNs apart instead of symbolic ones (for harnesses
// whose subject is not time; natively the replayed clock advances by 1 ns per read).
func vConcreteClock(stepNs int64) {}

// vPreemptOn(&mu): restrict the scheduling decisions to acquisitions of the named
// mutexes (those of the objects the goroutines share).
func vPreemptOn(mu interface{}) {}
func vJoin()                {}

// vPreemptAtChans(n): under the engine every channel send / receive / close,
// every select and every sync.Map operation made while another goroutine of
// the harness could run becomes a scheduling decision - go on, or hand over to
// one of the others - with at most n preemptions per path; a select with
// several ready cases forks over the case taken. vSettle(): let the other
// goroutines run until nobody can make progress (model timers fire when
// everybody is blocked). Natively both do nothing: a harness that uses them
// is confirmed through its stress function.
func vPreemptAtChans(n int) {}
func vSettle()              {}
func vStressFail(msg string) {
	fmt.Println("VERIF-STRESS-FAIL: " + msg)
	panic("VERIF-STRESS-FAIL: " + msg)
}

// vReadOnly declares shared state that has no lock because it is only written
// before the associations start: under the engine any later write is a
// lock-discipline violation (confirmed natively by the racer under -race).
func vReadOnly(obj interface{}, name string) {}

// ---------------------------------------------------------------------------
// Replay driver (called from the generated test).

type vReplayFile struct {
	Property string            `json:"property"`
	Harness  string            `json:"harness"`
	Kind     string            `json:"kind"`
	Label    string            `json:"label"`
	Inputs   []vInputVal       `json:"inputs"`
	Vars     map[string]string `json:"vars"`
}

// vSetVars sets the integer bound variables of the harnesses.
var vVarDefaults map[string]int

// vSetVars gives the bound variables the values of ONE harness run: every
// variable first returns to its source default, so that nothing leaks from the
// harness replayed before it in the same process.
func vSetVars(vars map[string]string) {
	if vVarDefaults == nil {
		vVarDefaults = map[string]int{}
		for k, p := range vVars {
			vVarDefaults[k] = *p
		}
	}
	for k, p := range vVars {
		*p = vVarDefaults[k]
	}
	for k, v := range vars {
		if p, ok := vVars[k]; ok {
			var n int
			fmt.Sscan(v, &n)
			*p = n
		}
	}
}

type vReplayResult struct {
	Harness    string   `json:"harness"`
	Kind       string   `json:"kind"` // none, assert, panic, assume
	Label      string   `json:"label"`
	Msg        string   `json:"msg"`
	Obs        []vObs   `json:"obs"`
	Tags       []string `json:"tags"`
	Covers     []string `json:"covers"`
	Misaligned string   `json:"misaligned,omitempty"`
	Stack      string   `json:"stack,omitempty"`
}

func vRunOne(h func(), name string, inputs []vInputVal) (res vReplayResult) {
	vS = &vState{inputs: inputs}
	vTimeHook = vClockNext
	defer func() { vTimeHook = nil }()
	res.Harness = name
	res.Kind = "none"
	defer func() {
		if r := recover(); r != nil {
			switch p := r.(type) {
			case vAssertFailure:
				res.Kind = "assert"
				res.Label = p.label
			case vAssumeFailure:
				res.Kind = "assume"
			default:
				res.Kind = "panic"
				res.Msg = fmt.Sprint(r)
				res.Stack = vStack()
			}
		}
		res.Obs = vS.obs
		res.Tags = vS.tags
		res.Covers = vS.covers
		res.Misaligned = vS.misaligned
	}()
	h()
	return
}

func vWriteJSON(path string, v interface{}) {
	b, _ := json.Marshal(v)
	_ = os.WriteFile(path, b, 0o644)
}
