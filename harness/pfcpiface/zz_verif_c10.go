//go:build verif

// C10 - associations end cleanly and the agent always stops.
//
// The real PFCPNode.Serve, PFCPConn.Serve (with its reader goroutine),
// startHeartBeatMonitor, HandlePFCPMsg, Shutdown and Stop run as goroutines on
// thread-safe fakes (a socket whose Read delivers queued datagrams, a read
// time-out or net.ErrClosed; a listening socket that blocks until closed; a
// datapath that counts deletions per session). The environment (the harness's
// main goroutine) fires two teardown triggers; under the engine every
// interleaving of the goroutines at the granularity of synchronisation
// operations is explored up to a context-switch bound (vPreemptAtChans).

package pfcpiface

import (
	"context"
	"fmt"
	"math/rand"
	"net"
	"os"
	"runtime"
	"sync"
	"sync/atomic"
	"time"

	"github.com/wmnsk/go-pfcp/ie"
	"github.com/wmnsk/go-pfcp/message"

	"github.com/omec-project/upf-epc/pfcpiface/metrics"
)

var vC10Switches = 2
var vC10Only1 = 0 // debugging: fix the first / second environment action
var vC10Only2 = -1
var vC10DoneCap = 100 // capacity of the node's completion channel (NewPFCPNode: 100)

// ---- thread-safe fakes ------------------------------------------------------

// vTConn: a connected UDP socket. Read returns, in this order of priority,
// net.ErrClosed once closed, the next queued datagram, a time-out error when
// the read deadline was made to expire; otherwise it waits.
type vTConn struct {
	mu       sync.Mutex
	queue    [][]byte
	timedOut bool
	closed   bool
	closedN  int
	reads    int
	writes   [][]byte
	wake     chan struct{}
	local    net.Addr
	remote   net.Addr
	jitter   bool
}

func vNewTConn(port int) *vTConn {
	return &vTConn{
		wake:   make(chan struct{}, 1),
		local:  &net.UDPAddr{IP: net.IPv4(10, 0, 0, 1).To4(), Port: 8805},
		remote: &net.UDPAddr{IP: net.IPv4(10, 0, 0, 2).To4(), Port: port},
	}
}

func (c *vTConn) signal() {
	select {
	case c.wake <- struct{}{}:
	default:
	}
}

func (c *vTConn) Read(b []byte) (int, error) {
	for {
		c.mu.Lock()
		if c.closed {
			c.mu.Unlock()
			return 0, net.ErrClosed
		}
		if len(c.queue) > 0 {
			d := c.queue[0]
			c.queue = c.queue[1:]
			c.reads++
			c.mu.Unlock()
			return copy(b, d), nil
		}
		if c.timedOut {
			c.timedOut = false
			c.mu.Unlock()
			return 0, vTimeoutErr{}
		}
		c.mu.Unlock()
		<-c.wake
	}
}

func (c *vTConn) deliver(d []byte) {
	c.mu.Lock()
	c.queue = append(c.queue, d)
	c.mu.Unlock()
	c.signal()
}

func (c *vTConn) expireReadDeadline() {
	c.mu.Lock()
	c.timedOut = true
	c.mu.Unlock()
	c.signal()
}

func (c *vTConn) Write(b []byte) (int, error) {
	if c.jitter {
		runtime.Gosched() // a socket write is a system call: other goroutines run meanwhile
	}
	// the datagram is copied when the socket gets to it (inside the critical
	// section): a caller's buffer that changes before that is sent as changed
	c.mu.Lock()
	defer c.mu.Unlock()
	if c.closed {
		return 0, net.ErrClosed
	}
	cp := make([]byte, len(b))
	copy(cp, b)
	c.writes = append(c.writes, cp)
	return len(b), nil
}

func (c *vTConn) Close() error {
	c.mu.Lock()
	c.closed = true
	c.closedN++
	c.mu.Unlock()
	c.signal()
	return nil
}

func (c *vTConn) snapshot() (closedN int, writes [][]byte, reads int) {
	c.mu.Lock()
	defer c.mu.Unlock()
	return c.closedN, append([][]byte{}, c.writes...), c.reads
}

func (c *vTConn) LocalAddr() net.Addr                { return c.local }
func (c *vTConn) RemoteAddr() net.Addr               { return c.remote }
func (c *vTConn) SetDeadline(t time.Time) error      { return nil }
func (c *vTConn) SetReadDeadline(t time.Time) error  { return nil }
func (c *vTConn) SetWriteDeadline(t time.Time) error { return nil }

// vTPacketConn: the node's listening socket; ReadFrom blocks until Close.
type vTPacketConn struct {
	mu      sync.Mutex
	closed  bool
	closedN int
	wake    chan struct{}
	queue   []vPkt // first datagrams of peers the node has no association with
}

type vPkt struct {
	from net.Addr
	d    []byte
}

func (p *vTPacketConn) ReadFrom(b []byte) (int, net.Addr, error) {
	for {
		p.mu.Lock()
		if p.closed {
			p.mu.Unlock()
			return 0, nil, net.ErrClosed
		}
		if len(p.queue) > 0 {
			k := p.queue[0]
			p.queue = p.queue[1:]
			p.mu.Unlock()
			return copy(b, k.d), k.from, nil
		}
		p.mu.Unlock()
		<-p.wake
	}
}

func (p *vTPacketConn) deliver(from net.Addr, d []byte) {
	p.mu.Lock()
	p.queue = append(p.queue, vPkt{from, d})
	p.mu.Unlock()
	select {
	case p.wake <- struct{}{}:
	default:
	}
}
func (p *vTPacketConn) WriteTo(b []byte, a net.Addr) (int, error) { return len(b), nil }
func (p *vTPacketConn) Close() error {
	p.mu.Lock()
	p.closed = true
	p.closedN++
	p.mu.Unlock()
	select {
	case p.wake <- struct{}{}:
	default:
	}
	return nil
}
func (p *vTPacketConn) LocalAddr() net.Addr {
	if !vInEngine() {
		return &net.UDPAddr{IP: net.IPv4(127, 0, 0, 1).To4(), Port: 0} // NewPFCPConn dials from here
	}
	return &net.UDPAddr{IP: net.IPv4(10, 0, 0, 1).To4(), Port: 8805}
}
func (p *vTPacketConn) SetDeadline(t time.Time) error      { return nil }
func (p *vTPacketConn) SetReadDeadline(t time.Time) error  { return nil }
func (p *vTPacketConn) SetWriteDeadline(t time.Time) error { return nil }

// vTDatapath counts, per session, how often its rules were deleted.
type vTDatapath struct {
	mu      sync.Mutex
	down    bool // IsConnected answers false
	creates map[uint64]int
	dels    map[uint64]int
	exits   int
	afterExit int // deletions that arrived after Exit
	jitter  bool
}

func (d *vTDatapath) Exit() {
	d.mu.Lock()
	d.exits++
	d.mu.Unlock()
}
func (d *vTDatapath) SetUpfInfo(u *upf, conf *Conf)     {}
func (d *vTDatapath) AddSliceInfo(s *SliceInfo) error   { return nil }
func (d *vTDatapath) SendEndMarkers(l *[][]byte) error  { return nil }
func (d *vTDatapath) IsConnected(accessIP *net.IP) bool {
	d.mu.Lock()
	defer d.mu.Unlock()
	return !d.down
}
func (d *vTDatapath) setDown(v bool) {
	d.mu.Lock()
	d.down = v
	d.mu.Unlock()
}
func (d *vTDatapath) SendMsgToUPF(method upfMsgType, all PacketForwardingRules, updated PacketForwardingRules) uint8 {
	if d.jitter {
		time.Sleep(time.Duration(rand.Intn(300)) * time.Microsecond)
	}
	d.mu.Lock()
	defer d.mu.Unlock()
	if len(all.pdrs) == 0 {
		return 1
	}
	k := all.pdrs[0].fseID
	switch method {
	case upfMsgTypeAdd:
		d.creates[k]++
	case upfMsgTypeDel:
		d.dels[k]++
		if d.exits > 0 {
			d.afterExit++
		}
	}
	return 1 // ie.CauseRequestAccepted
}
func (d *vTDatapath) delsOf(k uint64) int {
	d.mu.Lock()
	defer d.mu.Unlock()
	return d.dels[k]
}

type vTMetrics struct{ msgs, sess, stops int64 }

func (m *vTMetrics) SaveMessages(msg *metrics.Message) { atomic.AddInt64(&m.msgs, 1) }
func (m *vTMetrics) SaveSessions(s *metrics.Session)   { atomic.AddInt64(&m.sess, 1) }
func (m *vTMetrics) Stop() error                       { atomic.AddInt64(&m.stops, 1); return nil }

// vCtx2: the engine's model of a cancellable context with propagation to the
// contexts derived from it (context.WithCancel is overridden to produce it;
// natively the real package runs).
type vCtx2 struct {
	done     chan struct{}
	closed   bool
	children []*vCtx2
}

func (c *vCtx2) Deadline() (time.Time, bool)       { return time.Time{}, false }
func (c *vCtx2) Done() <-chan struct{}             { return c.done }
func (c *vCtx2) Value(key interface{}) interface{} { return nil }
func (c *vCtx2) Err() error {
	if c.closed {
		return context.Canceled
	}
	return nil
}
func (c *vCtx2) cancel() {
	if c.closed {
		return
	}
	c.closed = true
	close(c.done)
	for _, ch := range c.children {
		ch.cancel()
	}
}

func vInstallCtxModel() {
	if !vInEngine() {
		return
	}
	vOverride("context.WithCancel", func(parent context.Context) (context.Context, context.CancelFunc) {
		c := &vCtx2{done: make(chan struct{})}
		if p, ok := parent.(*vCtx2); ok {
			if p.closed {
				c.closed = true
				close(c.done)
			} else {
				p.children = append(p.children, c)
			}
		}
		return c, c.cancel
	})
}

// ---- the scenario -----------------------------------------------------------

const (
	vC10None    = iota
	vC10Release // Association Release Request from the peer
	vC10Timeout // the peer stays silent past the read time-out
	vC10HBFail  // heartbeats go unanswered
	vC10Stop    // the agent is being stopped
	vC10Delete  // a Session Deletion Request of the same peer is in flight
	vC10HBReq   // a Heartbeat Request of the same peer is in flight
	vC10Establish // a Session Establishment Request of the same peer is in flight
	vC10NTriggers
)

var vC10Names = []string{"none", "release", "read-timeout", "heartbeat-failure", "stop", "deletion-in-flight", "heartbeat-in-flight", "establishment-in-flight"}

type vC10Assoc struct {
	pc   *PFCPConn
	conn *vTConn
	addr string
	seid uint64 // local SEID of its one session
	tick chan time.Time
}

type vC10World struct {
	node   *PFCPNode
	pk     *vTPacketConn
	dp     *vTDatapath
	m      *vTMetrics
	u      *upf
	assocs []*vC10Assoc
	served sync.WaitGroup
	stopped bool
}

// vC10Setup builds a node with n associations (each with one established
// session) and starts the real service goroutines. hb: association 0 runs the
// heartbeat monitor.
func vC10Setup(n int, hb bool, jitter bool) *vC10World {
	w := &vC10World{pk: &vTPacketConn{wake: make(chan struct{}, 1)}, m: &vTMetrics{},
		dp: &vTDatapath{creates: map[uint64]int{}, dels: map[uint64]int{}, jitter: jitter}}
	w.u = &upf{
		accessIP:         net.IP{198, 18, 0, 1},
		coreIP:           net.IP{198, 19, 0, 1},
		nodeID:           "upf.test",
		dnn:              "internet",
		fteidGenerator:   NewFTEIDGenerator(),
		datapath:         w.dp,
		maxReqRetries:    0,
		respTimeout:      time.Millisecond,
		reportNotifyChan: make(chan uint64, 16),
		hbInterval:       2 * time.Millisecond,
		readTimeout:      time.Hour,
		enableHBTimer:    false,
	}
	vInstallCtxModel()
	vInstallPacketStub()
	ctx, cancel := context.WithCancel(context.Background())
	w.node = &PFCPNode{ctx: ctx, cancel: cancel, PacketConn: w.pk, done: make(chan struct{}),
		pConnDone: make(chan string, vC10DoneCap), upf: w.u, metrics: w.m}
	for k := 0; k < n; k++ {
		conn := vNewTConn(9000 + k)
		pc := &PFCPConn{
			ctx:            ctx,
			Conn:           conn,
			ts:             recoveryTS{local: vTS},
			rng:            rand.New(&vRandSource{counter: true, n: 1000 * k}),
			maxRetries:     2,
			store:          NewInMemoryStore(),
			upf:            w.u,
			done:           w.node.pConnDone,
			shutdown:       make(chan struct{}),
			InstrumentPFCP: w.m,
			hbReset:        make(chan struct{}, 100),
		}
		pc.setLocalNodeID(w.u.nodeID)
		pc.nodeID.remote = "cp.test"
		a := &vC10Assoc{pc: pc, conn: conn, addr: conn.remote.String()}
		// one established session, through the real handler
		pdrs, fars, qers := vConcreteRules()
		m := vEstablishment(7, uint64(0xa0+k), "cp.test", pdrs, fars, qers)
		b := make([]byte, m.MarshalLen())
		_ = m.MarshalTo(b)
		pc.HandlePFCPMsg(b)
		ss := pc.store.GetAllSessions()
		if len(ss) != 1 {
			panic("harness: establishment failed")
		}
		a.seid = ss[0].localSEID
		w.assocs = append(w.assocs, a)
		w.node.pConns.Store(a.addr, pc)
	}
	if hb {
		a := w.assocs[0]
		if vInEngine() {
			a.tick = make(chan time.Time, 1)
			vOverride("time.NewTicker", func(d time.Duration) *time.Ticker { return &time.Ticker{C: a.tick} })
			vOverride("(*time.Ticker).Stop", func(t *time.Ticker) {})
			vOverride("(*time.Ticker).Reset", func(t *time.Ticker, d time.Duration) {})
		} else {
			w.u.hbInterval = time.Hour // the trigger shortens it
		}
	}
	go w.node.Serve()
	for _, a := range w.assocs {
		go a.pc.Serve()
	}
	if hb && vInEngine() {
		go w.assocs[0].pc.startHeartBeatMonitor()
	}
	return w
}

func vMarshal(m message.Message) []byte {
	b := make([]byte, m.MarshalLen())
	_ = m.MarshalTo(b)
	return b
}

// fire performs one environment action on association 0.
func (w *vC10World) fire(t int) {
	var a *vC10Assoc
	if len(w.assocs) > 0 {
		a = w.assocs[0]
	}
	switch t {
	case vC10Release:
		a.conn.deliver(vMarshal(message.NewAssociationReleaseRequest(21, ie.NewNodeID("", "", "cp.test"))))
	case vC10Timeout:
		a.conn.expireReadDeadline()
	case vC10HBFail:
		if vInEngine() {
			a.tick <- time.Time{}
		} else {
			w.u.hbInterval = time.Millisecond
			go a.pc.startHeartBeatMonitor()
		}
	case vC10Stop:
		w.stopped = true
		w.node.Stop()
	case vC10Delete:
		a.conn.deliver(vMarshal(vDeletion(22, a.seid)))
	case vC10HBReq:
		a.conn.deliver(vMarshal(message.NewHeartbeatRequest(23, ie.NewRecoveryTimeStamp(vTS), nil)))
	case vC10Establish:
		pdrs, fars, qers := vConcreteRules()
		a.conn.deliver(vMarshal(vEstablishment(24, 0xee, "cp.test", pdrs, fars, qers)))
	}
}

func (w *vC10World) nodeDone() bool {
	select {
	case <-w.node.done:
		return true
	default:
		return false
	}
}

type vC10Res struct {
	label string
	ok    bool
}

// ended: what must hold for an association that has ended while the agent
// keeps running.
func (w *vC10World) checkEnded(a *vC10Assoc, out *[]vC10Res) {
	closedN, _, _ := a.conn.snapshot()
	_, known := w.node.pConns.Load(a.addr)
	*out = append(*out,
		vC10Res{"ended-association:sessions-removed-from-the-datapath", w.dp.delsOf(a.seid) >= 1},
		vC10Res{"ended-association:sessions-removed-from-the-datapath-only-once", w.dp.delsOf(a.seid) <= 1},
		vC10Res{"ended-association:no-session-left-in-its-store", len(a.pc.store.GetAllSessions()) == 0},
		vC10Res{"ended-association:forgotten-by-the-node", !known},
		vC10Res{"ended-association:socket-closed", closedN >= 1})
}

func (w *vC10World) checkUnaffected(a *vC10Assoc, out *[]vC10Res) {
	closedN, _, _ := a.conn.snapshot()
	v, known := w.node.pConns.Load(a.addr)
	*out = append(*out,
		vC10Res{"other-association:sessions-untouched", w.dp.delsOf(a.seid) == 0 && len(a.pc.store.GetAllSessions()) == 1},
		vC10Res{"other-association:still-known-to-the-node", known && v == interface{}(a.pc)},
		vC10Res{"other-association:socket-open", closedN == 0})
}

// leftover: sessions that were created in the datapath and never removed.
func (d *vTDatapath) leftover() int {
	d.mu.Lock()
	defer d.mu.Unlock()
	n := 0
	for k, c := range d.creates {
		if d.dels[k] < c {
			n++
		}
	}
	return n
}

func (w *vC10World) checkStopped(out *[]vC10Res) {
	*out = append(*out, vC10Res{"stop:completes", w.nodeDone()},
		vC10Res{"stop:no-session-of-an-ended-association-is-left-in-the-datapath", w.dp.leftover() == 0})
	for _, a := range w.assocs {
		*out = append(*out,
			vC10Res{"stop:each-session-removed-from-the-datapath", w.dp.delsOf(a.seid) >= 1},
			vC10Res{"stop:each-session-removed-from-the-datapath-only-once", w.dp.delsOf(a.seid) <= 1})
	}
	w.dp.mu.Lock()
	exits, late := w.dp.exits, w.dp.afterExit
	w.dp.mu.Unlock()
	*out = append(*out, vC10Res{"stop:datapath-exit-once", exits == 1},
		vC10Res{"stop:no-session-cleanup-after-the-datapath-was-shut-down", late == 0})
}

// H_C10_teardown: one or two associations, two environment actions on the first
// (the second may be none), every interleaving within the bound.
func H_C10_teardown() { vC10Teardown(false) }

// H_C10_teardown_deep: the same scenario restricted to ONE association and to
// pairs of teardown triggers (no request in flight), so that one more
// preemption per path is affordable in the thorough tier.
func H_C10_teardown_deep() { vC10Teardown(true) }

func vC10Teardown(deep bool) {
	n := 1 + vChoose("other_associations", 2)
	if deep {
		vAssume(n == 1)
	}
	t1 := 1 + vChoose("trigger1", 4) // release, read-timeout, heartbeat-failure, stop
	t2 := vChoose("trigger2", vC10NTriggers)
	vAssume(t2 != t1)
	if deep {
		vAssume(t2 < vC10Delete)
	}
	vAssume(vC10Only1 == 0 || t1 == vC10Only1)
	vAssume(vC10Only2 < 0 || t2 == vC10Only2)
	// by symmetry the teardown pair is ordered
	vAssume(t2 == vC10None || t2 > t1 || t2 >= vC10Delete)
	vTag(vC10Names[t1] + "+" + vC10Names[t2])
	vConcreteClock(1000) // time is not the subject: concrete instants
	w := vC10Setup(n, t1 == vC10HBFail || t2 == vC10HBFail, false)
	vSettle() // every service goroutine has reached its waiting point
	vPreemptAtChans(vC10Switches)
	if t2 >= vC10Delete {
		// the request is in flight when the teardown trigger arrives
		w.fire(t2)
		w.fire(t1)
	} else {
		w.fire(t1)
		w.fire(t2)
	}
	vSettle()
	var res []vC10Res
	if !w.stopped {
		w.checkEnded(w.assocs[0], &res)
		for _, b := range w.assocs[1:] {
			w.checkUnaffected(b, &res)
		}
		for _, r := range res {
			vAssert(r.label, r.ok)
		}
		res = nil
		// a surviving association still serves its peer
		for _, b := range w.assocs[1:] {
			_, w0, _ := b.conn.snapshot()
			b.conn.deliver(vMarshal(message.NewHeartbeatRequest(31, ie.NewRecoveryTimeStamp(vTS), nil)))
			vSettle()
			_, w1, _ := b.conn.snapshot()
			vAssert("other-association:still-answers", len(w1) == len(w0)+1)
		}
		// and the agent stops, with whatever is still alive
		w.fire(vC10Stop)
		vSettle()
	}
	w.checkStopped(&res)
	for _, r := range res {
		vAssert(r.label, r.ok)
	}
	vJoin() // every goroutine of the agent has finished
	if deep {
		vCover("deep")
		return
	}
	vCover("teardown")
	vCover(vC10Names[t1])
	if t2 != vC10None {
		vCover(vC10Names[t2])
	}
}

// R_C10_stress_teardown: native counterpart - the same scenarios with real
// goroutines, random jitter in the datapath and between the two triggers, many
// rounds. A panic in any goroutine of the agent ends the test process (that is
// the native confirmation of a panic the engine found); a hang or a failed
// check is reported through vStressFail.
func R_C10_stress_teardown() {
	only := os.Getenv("VERIF_STRESS_TAGS") // the scenario the engine named, e.g. "release+stop"
	deadline := time.Now().Add(45 * time.Second)
	for round := 0; time.Now().Before(deadline) && round < 20000; round++ {
		for t1 := vC10Release; t1 <= vC10Stop; t1++ {
			for t2 := vC10None; t2 < vC10NTriggers; t2++ {
				if t2 == t1 || (t2 != vC10None && t2 < t1) {
					continue
				}
				if only != "" && only != vC10Names[t1]+"+"+vC10Names[t2] {
					continue
				}
				if msg := vC10Native(1+round%2, t1, t2); msg != "" {
					vStressFail(fmt.Sprintf("round %d %s+%s: %s", round, vC10Names[t1], vC10Names[t2], msg))
				}
			}
		}
	}
}

func vC10Wait(cond func() bool, d time.Duration) bool {
	end := time.Now().Add(d)
	for !cond() {
		if time.Now().After(end) {
			return false
		}
		time.Sleep(200 * time.Microsecond)
	}
	return true
}

func vC10Native(n, t1, t2 int) string {
	w := vC10Setup(n, t1 == vC10HBFail || t2 == vC10HBFail, true)
	time.Sleep(time.Duration(rand.Intn(300)) * time.Microsecond)
	var wg sync.WaitGroup
	first, second := t1, t2
	if t2 >= vC10Delete {
		first, second = t2, t1
	}
	wg.Add(2)
	go func() { defer wg.Done(); w.fire(first) }()
	go func() {
		defer wg.Done()
		time.Sleep(time.Duration(rand.Intn(400)) * time.Microsecond)
		w.fire(second)
	}()
	wg.Wait()
	a := w.assocs[0]
	var res []vC10Res
	if !w.stopped {
		ok := vC10Wait(func() bool {
			c, _, _ := a.conn.snapshot()
			_, known := w.node.pConns.Load(a.addr)
			return c >= 1 && !known && w.dp.delsOf(a.seid) >= 1
		}, 2*time.Second)
		if !ok {
			res = nil
			w.checkEnded(a, &res)
			for _, r := range res {
				if !r.ok {
					return "hang or " + r.label
				}
			}
		}
		time.Sleep(500 * time.Microsecond)
		w.checkEnded(a, &res)
		for _, b := range w.assocs[1:] {
			w.checkUnaffected(b, &res)
		}
		for _, r := range res {
			if !r.ok {
				return r.label
			}
		}
		res = nil
		w.fire(vC10Stop)
	}
	if !vC10Wait(w.nodeDone, 2*time.Second) {
		return "hang: stop does not complete"
	}
	time.Sleep(time.Duration(200+rand.Intn(600)) * time.Microsecond)
	w.checkStopped(&res)
	for _, r := range res {
		if !r.ok {
			return r.label
		}
	}
	return ""
}

// ---- new peers: handleNewPeers / NewPFCPConn ---------------------------------

const (
	vC10FirstSetupRefused = iota // Association Setup Request while the datapath is down
	vC10FirstSetup               // Association Setup Request, accepted
	vC10FirstRelease             // Association Release Request as the very first message
	vC10FirstHeartbeat           // Heartbeat Request
	vC10NFirst
)

var vC10FirstNames = []string{"first=setup-refused", "first=setup", "first=release", "first=heartbeat"}

// vC10Peer: a control-plane peer. Under the engine its datagrams are handed to
// the fakes; natively it is a real UDP socket on loopback (NewPFCPConn dials a
// real connected socket towards it).
type vC10Peer struct {
	addr   net.Addr
	udp    *net.UDPConn // native
	dialed []*vTConn    // engine: every socket NewPFCPConn dialled towards this peer
}

func vC10FirstDatagram(kind int) []byte {
	switch kind {
	case vC10FirstSetupRefused, vC10FirstSetup:
		return vMarshal(message.NewAssociationSetupRequest(41, ie.NewNodeID("", "", "cp.test"), ie.NewRecoveryTimeStamp(vTS)))
	case vC10FirstRelease:
		return vMarshal(message.NewAssociationReleaseRequest(42, ie.NewNodeID("", "", "cp.test")))
	}
	return vMarshal(message.NewHeartbeatRequest(43, ie.NewRecoveryTimeStamp(vTS), nil))
}

// vC10NewPeerWorld: a node without associations and one peer.
func vC10NewPeerWorld() (*vC10World, *vC10Peer) {
	w := vC10Setup(0, false, !vInEngine())
	p := &vC10Peer{}
	if vInEngine() {
		p.addr = &net.UDPAddr{IP: net.IPv4(10, 0, 0, 2).To4(), Port: 9000}
		vOverride("github.com/libp2p/go-reuseport.Dial", func(network, laddr, raddr string) (net.Conn, error) {
			c := vNewTConn(9000)
			p.dialed = append(p.dialed, c)
			return c, nil
		})
		vOverride("math/rand.NewSource", func(seed int64) rand.Source { return &vRandSource{counter: true} })
	} else {
		u, err := net.ListenUDP("udp", &net.UDPAddr{IP: net.IPv4(127, 0, 0, 1), Port: 0})
		if err != nil {
			panic("harness: cannot open a loopback UDP socket: " + err.Error())
		}
		p.udp, p.addr = u, u.LocalAddr()
	}
	return w, p
}

// registered returns the association the node has for the peer, if any.
func (w *vC10World) registered(p *vC10Peer) *PFCPConn {
	v, ok := w.node.pConns.Load(p.addr.String())
	if !ok {
		return nil
	}
	return v.(*PFCPConn)
}

// send delivers a datagram of the peer the way the kernel would: to the
// association's connected socket if the node has one for the peer, to the
// listening socket otherwise.
func (w *vC10World) send(p *vC10Peer, d []byte) {
	pc := w.registered(p)
	if pc == nil {
		w.pk.deliver(p.addr, d)
		return
	}
	if vInEngine() {
		pc.Conn.(*vTConn).deliver(d)
		return
	}
	_, _ = p.udp.WriteToUDP(d, pc.LocalAddr().(*net.UDPAddr))
}

// accepted reports whether the peer got an Association Setup Response with
// cause accepted for sequence number seq.
func (w *vC10World) accepted(p *vC10Peer, seq uint32) bool {
	var got [][]byte
	if vInEngine() {
		for _, c := range p.dialed {
			_, ws, _ := c.snapshot()
			got = append(got, ws...)
		}
	} else {
		end := time.Now().Add(700 * time.Millisecond)
		buf := make([]byte, 2048)
		for time.Now().Before(end) {
			_ = p.udp.SetReadDeadline(time.Now().Add(50 * time.Millisecond))
			n, _, err := p.udp.ReadFromUDP(buf)
			if err != nil {
				continue
			}
			got = append(got, append([]byte{}, buf[:n]...))
			if m, err := message.Parse(buf[:n]); err == nil && m.MessageType() == message.MsgTypeAssociationSetupResponse && m.Sequence() == seq {
				break
			}
		}
	}
	for _, g := range got {
		m, err := message.Parse(g)
		if err != nil {
			continue
		}
		if r, ok := m.(*message.AssociationSetupResponse); ok && m.Sequence() == seq && vCauseOf(r.Cause) == ie.CauseRequestAccepted {
			return true
		}
	}
	return false
}

// vC10NewPeerScenario: the first datagram of a new peer creates its association
// (handleNewPeers -> NewPFCPConn -> HandlePFCPMsg -> Serve); whatever that
// datagram was, the peer can then associate (afresh) and Stop completes.
func vC10NewPeerScenario(w *vC10World, p *vC10Peer, kind int, settle func()) string {
	w.dp.setDown(kind == vC10FirstSetupRefused)
	w.pk.deliver(p.addr, vC10FirstDatagram(kind))
	settle()
	if kind == vC10FirstRelease && w.registered(p) != nil {
		return "new-peer:an-association-ended-by-its-first-message-is-forgotten"
	}
	// the peer (re-)associates: the datapath is up now
	w.dp.setDown(false)
	w.send(p, vMarshal(message.NewAssociationSetupRequest(51, ie.NewNodeID("", "", "cp.test"), ie.NewRecoveryTimeStamp(vTS))))
	settle()
	if !w.accepted(p, 51) {
		return "new-peer:the-peer-can-associate-afresh"
	}
	if w.registered(p) == nil {
		return "new-peer:the-associated-peer-is-registered"
	}
	w.fire(vC10Stop)
	settle()
	if !vInEngine() {
		vC10Wait(w.nodeDone, 2*time.Second)
	}
	if !w.nodeDone() {
		return "stop:completes"
	}
	return ""
}

// H_C10_newpeer: under the engine, every interleaving within the bound.
func H_C10_newpeer() {
	kind := vChoose("first_datagram", vC10NFirst)
	vTag(vC10FirstNames[kind])
	vConcreteClock(1000)
	w, p := vC10NewPeerWorld()
	vSettle()
	vPreemptAtChans(vC10Switches)
	msg := vC10NewPeerScenario(w, p, kind, vSettle)
	for _, l := range []string{"new-peer:an-association-ended-by-its-first-message-is-forgotten", "new-peer:the-peer-can-associate-afresh",
		"new-peer:the-associated-peer-is-registered", "stop:completes"} {
		vAssert(l, msg != l)
	}
	vJoin()
	vCover("newpeer")
	vCover(vC10FirstNames[kind])
}

// R_C10_stress_newpeer: native counterpart on real loopback UDP sockets.
func R_C10_stress_newpeer() {
	only := os.Getenv("VERIF_STRESS_TAGS")
	deadline := time.Now().Add(40 * time.Second)
	for round := 0; round < 300 && time.Now().Before(deadline); round++ {
		for kind := 0; kind < vC10NFirst; kind++ {
			if only != "" && only != vC10FirstNames[kind] {
				continue
			}
			w, p := vC10NewPeerWorld()
			msg := vC10NewPeerScenario(w, p, kind, func() { time.Sleep(time.Duration(2+rand.Intn(4)) * time.Millisecond) })
			_ = p.udp.Close()
			if msg != "" {
				if msg == "stop:completes" {
					msg = "hang: " + msg
				}
				vStressFail(fmt.Sprintf("round %d %s: %s", round, vC10FirstNames[kind], msg))
			}
		}
	}
}

// H_C10_stopmany: "any number of live associations" scaled down - the node's
// completion channel holds ONE entry (the real one holds 100) and two
// associations are alive when the agent is stopped, optionally while one of
// them is being released: more completions than the channel can buffer must
// not wedge the shutdown.
func H_C10_stopmany() {
	vConcreteClock(1000)
	vC10DoneCap = 1
	t2 := []int{vC10None, vC10Release, vC10Timeout}[vChoose("also", 3)]
	vTag("stop+" + vC10Names[t2] + "(completion-channel-of-1)")
	w := vC10Setup(2, false, false)
	vSettle()
	vPreemptAtChans(vC10Switches)
	w.fire(t2)
	w.fire(vC10Stop)
	vSettle()
	var res []vC10Res
	w.checkStopped(&res)
	for _, r := range res {
		vAssert(r.label, r.ok)
	}
	vJoin()
	vCover("stopmany")
}

// R_C10_stress_stopmany: native counterpart.
func R_C10_stress_stopmany() {
	vC10DoneCap = 1
	deadline := time.Now().Add(40 * time.Second)
	for round := 0; round < 3000 && time.Now().Before(deadline); round++ {
		for _, t2 := range []int{vC10None, vC10Release, vC10Timeout} {
			w := vC10Setup(2, false, true)
			time.Sleep(time.Duration(rand.Intn(300)) * time.Microsecond)
			w.fire(t2)
			w.fire(vC10Stop)
			if !vC10Wait(w.nodeDone, 2*time.Second) {
				vStressFail(fmt.Sprintf("round %d: hang: stop does not complete with two live associations and a completion channel of one", round))
			}
			time.Sleep(time.Duration(200+rand.Intn(400)) * time.Microsecond)
			var res []vC10Res
			w.checkStopped(&res)
			for _, r := range res {
				if !r.ok {
					vStressFail(fmt.Sprintf("round %d: %s", round, r.label))
				}
			}
		}
	}
}

// ---- re-association overlapping the teardown ---------------------------------

// served lists the local addresses of the association sockets that still serve
// the peer: under the engine the dialled fake sockets that are open; natively
// the source addresses seen so far that answer a heartbeat.
func (w *vC10World) servedBy(p *vC10Peer, seen map[string]*net.UDPAddr) []string {
	var out []string
	if vInEngine() {
		for k, c := range p.dialed {
			if n, _, _ := c.snapshot(); n == 0 {
				out = append(out, fmt.Sprintf("socket#%d", k))
			}
		}
		return out
	}
	for _, a := range seen {
		_, _ = p.udp.WriteToUDP(vMarshal(message.NewHeartbeatRequest(77, ie.NewRecoveryTimeStamp(vTS), nil)), a)
	}
	end := time.Now().Add(150 * time.Millisecond)
	buf := make([]byte, 2048)
	got := map[string]bool{}
	for time.Now().Before(end) {
		_ = p.udp.SetReadDeadline(time.Now().Add(30 * time.Millisecond))
		n, from, err := p.udp.ReadFromUDP(buf)
		if err != nil {
			continue
		}
		if m, err := message.Parse(buf[:n]); err == nil && m.MessageType() == message.MsgTypeHeartbeatResponse && m.Sequence() == 77 {
			got[from.String()] = true
		}
	}
	for a := range got {
		out = append(out, a)
	}
	return out
}

// drain reads what the peer received so far (native) and remembers the senders.
func (p *vC10Peer) drain(seen map[string]*net.UDPAddr, d time.Duration) {
	if p.udp == nil {
		return
	}
	end := time.Now().Add(d)
	buf := make([]byte, 2048)
	for time.Now().Before(end) {
		_ = p.udp.SetReadDeadline(time.Now().Add(20 * time.Millisecond))
		_, from, err := p.udp.ReadFromUDP(buf)
		if err == nil {
			seen[from.String()] = from
		}
	}
}

// vC10ReassocScenario: the peer releases its association and, without waiting,
// sends a new Association Setup Request that reaches the LISTENING socket (the
// association's socket is being closed). Whatever the node makes of that
// datagram - drop it while the old association is still registered, or create
// a fresh association once it is forgotten - every association that is being
// served afterwards is the one the node has registered for the peer, and Stop
// completes.
func vC10ReassocScenario(w *vC10World, p *vC10Peer, settle func()) string {
	seen := map[string]*net.UDPAddr{}
	w.pk.deliver(p.addr, vC10FirstDatagram(vC10FirstSetup))
	settle()
	p.drain(seen, 60*time.Millisecond)
	if w.registered(p) == nil {
		return "reassoc:first-association-registered"
	}
	w.send(p, vMarshal(message.NewAssociationReleaseRequest(61, ie.NewNodeID("", "", "cp.test"))))
	w.pk.deliver(p.addr, vMarshal(message.NewAssociationSetupRequest(62, ie.NewNodeID("", "", "cp.test"), ie.NewRecoveryTimeStamp(vTS))))
	settle()
	p.drain(seen, 60*time.Millisecond)
	reg := w.registered(p)
	for _, s := range w.servedBy(p, seen) {
		ok := false
		if reg != nil {
			if vInEngine() {
				for k, c := range p.dialed {
					if fmt.Sprintf("socket#%d", k) == s && reg.Conn == net.Conn(c) {
						ok = true
					}
				}
			} else {
				ok = reg.LocalAddr().String() == s
			}
		}
		if !ok {
			return "reassoc:every-association-that-is-served-is-the-registered-one"
		}
	}
	w.fire(vC10Stop)
	settle()
	if !vInEngine() {
		vC10Wait(w.nodeDone, 2*time.Second)
	}
	if !w.nodeDone() {
		return "stop:completes"
	}
	return ""
}

// H_C10_reassoc: under the engine, every interleaving within the bound.
func H_C10_reassoc() {
	vConcreteClock(1000)
	w, p := vC10NewPeerWorld()
	vSettle()
	vPreemptAtChans(vC10Switches)
	msg := vC10ReassocScenario(w, p, vSettle)
	for _, l := range []string{"reassoc:first-association-registered", "reassoc:every-association-that-is-served-is-the-registered-one", "stop:completes"} {
		vAssert(l, msg != l)
	}
	vJoin()
	vCover("reassoc")
}

// R_C10_stress_reassoc: native counterpart on real loopback UDP sockets.
func R_C10_stress_reassoc() {
	deadline := time.Now().Add(40 * time.Second)
	for round := 0; round < 400 && time.Now().Before(deadline); round++ {
		w, p := vC10NewPeerWorld()
		msg := vC10ReassocScenario(w, p, func() { time.Sleep(time.Duration(1+rand.Intn(3)) * time.Millisecond) })
		_ = p.udp.Close()
		if msg != "" {
			if msg == "stop:completes" {
				msg = "hang: " + msg
			}
			vStressFail(fmt.Sprintf("round %d: %s", round, msg))
		}
	}
}
