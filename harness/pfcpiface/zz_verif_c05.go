//go:build verif

package pfcpiface

import (
	"math/rand"

	"github.com/wmnsk/go-pfcp/ie"
	"github.com/wmnsk/go-pfcp/message"
)

// C05 — ending a session reclaims everything it ever acquired.

// vTable is a datapath table image maintained from what the fake datapath
// accepted: rules are keyed by (F-SEID, rule id).
type vTable struct {
	pdrs map[[2]uint64]bool
	fars map[[2]uint64]bool
	qers map[[2]uint64]bool
}

func vNewTable() *vTable {
	return &vTable{pdrs: map[[2]uint64]bool{}, fars: map[[2]uint64]bool{}, qers: map[[2]uint64]bool{}}
}

// apply replays the accepted messages of the fake datapath.
func (t *vTable) apply(msgs []vDpMsg) {
	for _, m := range msgs {
		if m.cause != ie.CauseRequestAccepted {
			continue
		}
		r := m.all
		if m.method == upfMsgTypeMod {
			r = m.updated
		}
		for _, p := range r.pdrs {
			k := [2]uint64{p.fseID, uint64(p.pdrID)}
			if m.method == upfMsgTypeDel {
				delete(t.pdrs, k)
			} else {
				t.pdrs[k] = true
			}
		}
		for _, f := range r.fars {
			k := [2]uint64{f.fseID, uint64(f.farID)}
			if m.method == upfMsgTypeDel {
				delete(t.fars, k)
			} else {
				t.fars[k] = true
			}
		}
		for _, q := range r.qers {
			k := [2]uint64{q.fseID, uint64(q.qerID)}
			if m.method == upfMsgTypeDel {
				delete(t.qers, k)
			} else {
				t.qers[k] = true
			}
		}
	}
}

func (t *vTable) size() int { return len(t.pdrs) + len(t.fars) + len(t.qers) }

var vC05Cycles = 1

// vReclaimed asserts that nothing of an ended (or never created) session is left.
func vReclaimed(e *vEnv, tag string, poolFree int) {
	t := vNewTable()
	t.apply(e.dp.msgs)
	// what the datapath itself refused to delete stays in the datapath - that is
	// the environment's fault, not a leak of the agent: the rule image must be
	// empty unless the LAST delete sent was refused (and then it must have been sent)
	refusedDelete := false
	if n := len(e.dp.msgs); n > 0 && e.dp.msgs[n-1].method == upfMsgTypeDel && e.dp.msgs[n-1].cause != 1 {
		refusedDelete = true
	}
	vAssert(tag+":datapath-has-no-rule-left", t.size() == 0 || refusedDelete)
	vAssert(tag+":session-record-removed", len(e.pc.store.GetAllSessions()) == 0)
	vAssert(tag+":sessions-gauge-back-to-zero", e.m.sessionsGauge == 0)
	vAssert(tag+":chosen-teids-released", len(e.u.fteidGenerator.usedMap) == 0)
	if e.u.ippool != nil {
		vAssert(tag+":ue-address-returned", len(e.u.ippool.freePool) == poolFree && len(e.u.ippool.inventory) == 0)
	}
}

// H_C05_end: one session through establishment (accepted or rejected at any
// exit), an optional modification, and each of the four ways a session ends.
func H_C05_end() {
	// time is not this harness's subject: sessions live for a millisecond (the
	// shortest-lived sessions are the adversarial case for anything derived from
	// a session's duration)
	vConcreteClock(1000000)
	alloc := vBool("ueip_alloc")
	e := vNewEnv(alloc)
	e.pc.maxRetries = 1
	poolFree := 0
	if alloc {
		poolFree = len(e.u.ippool.freePool)
	}
	pdrs, fars, qers := vConcreteRules()
	pdrs[0].choose = vBool("choose_fteid")
	if alloc {
		pdrs[0].ueChoose = vBool("choose_ueip")
		pdrs[1].ueChoose = pdrs[0].ueChoose
	}
	if vBool("bad_far") {
		vTag("est-with-bad-far")
		fars[1].action = 0 // parseFAR refuses a zero Apply Action: rejected after PDRs were parsed
	}
	if vBool("tolerated_bad_sdf_filter") {
		// a flow description parsePDR tolerates (the PDR is accepted without the
		// filter): nothing the PDR acquired may be given back on that account
		vTag("tolerated-bad-filter")
		pdrs[0].sdf = "permit out ip from 10.1.0.0/33 to assigned"
	}
	e.vSend(vEstablishment(1, 0xc0ffee, "cp.test", pdrs, fars, qers))
	r, ok := e.vLastReply().(*message.SessionEstablishmentResponse)
	vAssert("est-answered", ok && len(e.conn.writes) == 1)
	if vCauseOf(r.Cause) != ie.CauseRequestAccepted {
		vCover("est-rejected")
		vTag("after-rejected-establishment")
		vReclaimed(e, "rejected-est", poolFree)
		return
	}
	fs, _ := r.UPFSEID.FSEID()
	up := fs.SEID
	vCover("est-accepted")
	if alloc && pdrs[0].ueChoose {
		// a live session holds exactly its one address
		vAssert("est-accepted:session-holds-its-ue-address", e.u.ippool.holds(up))
		vAssert("est-accepted:exactly-one-address-taken", len(e.u.ippool.freePool) == poolFree-1 && len(e.u.ippool.inventory) == 1)
		// ... and every PDR of the session was given that one address (sticky)
		held := ip2int(e.u.ippool.inventory[up])
		for _, p := range e.pc.store.GetAllSessions()[0].pdrs {
			vAssert("est-accepted:every-pdr-carries-the-address-the-session-holds", p.ueAddress == held)
		}
	}

	if vBool("modify") {
		vTag("modified")
		u := fars[1]
		u.teid = 0x7777
		np := vPDRSpec{uplink: true, id: 3, prec: 50, teid: 0x4321, n3: [4]byte{198, 18, 0, 1}, ue: [4]byte{10, 250, 0, 5}, farID: 1, qerIDs: []uint32{1, 4},
			choose: vBool("mod_choose_fteid")}
		ies := []*ie.IE{np.create(), u.update()}
		switch vChoose("mod_remove", 4) {
		case 1:
			ies = append(ies, ie.NewRemovePDR(ie.NewPDRID(2)), ie.NewRemoveQER(ie.NewQERID(2)))
		case 2: // the access PDR - the one that may carry a UPF-chosen TEID - goes
			ies = append(ies, ie.NewRemovePDR(ie.NewPDRID(1)), ie.NewRemoveQER(ie.NewQERID(1)))
		case 3: // ... together with a Remove FAR the session does not have: the request is refused as a whole
			ies = append(ies, ie.NewRemovePDR(ie.NewPDRID(1)), ie.NewRemoveFAR(ie.NewFARID(77)))
		}
		e.vSend(message.NewSessionModificationRequest(0, 0, up, 2, 0, ies...))
		if m, okm := e.vLastReply().(*message.SessionModificationResponse); okm && vCauseOf(m.Cause) != ie.CauseRequestAccepted {
			// a refused modification changes nothing: what the session holds stays held
			vCover("mod-refused")
			ss := e.pc.store.GetAllSessions()
			vAssert("mod-refused:session-still-stored", len(ss) == 1)
			for _, p := range ss[0].pdrs {
				if p.UPAllocateFteid {
					vAssert("mod-refused:chosen-teid-still-marked", e.u.fteidGenerator.IsAllocated(p.tunnelTEID))
				}
			}
			if alloc && pdrs[0].ueChoose {
				vAssert("mod-refused:session-keeps-its-ue-address", e.u.ippool.holds(up))
			}
		}
	}

	switch vChoose("end", 4) {
	case 0:
		vTag("end=deletion")
		e.vSend(vDeletion(3, up))
		d, ok := e.vLastReply().(*message.SessionDeletionResponse)
		vAssert("del-answered", ok)
		if vCauseOf(d.Cause) != ie.CauseRequestAccepted {
			// the datapath refused the delete: the session lives on and keeps what it holds
			vCover("del-refused")
			vAssert("del-refused:session-still-stored", len(e.pc.store.GetAllSessions()) == 1)
			if alloc && pdrs[0].ueChoose {
				vAssert("del-refused:session-keeps-its-ue-address", e.u.ippool.holds(up))
				vAssert("del-refused:address-not-handed-back", len(e.u.ippool.freePool) == poolFree-1)
			}
			for _, p := range e.pc.store.GetAllSessions()[0].pdrs {
				if p.UPAllocateFteid {
					vAssert("del-refused:chosen-teid-still-marked", e.u.fteidGenerator.IsAllocated(p.tunnelTEID))
				}
			}
			return
		}
	case 1:
		vTag("end=association-release")
		e.dp.fixedCause = 0 // the association ends whatever the datapath answers to the deletes
		e.vSend(message.NewAssociationReleaseRequest(3, ie.NewNodeID("", "", "cp.test")))
	case 2:
		vTag("end=peer-timeout-or-heartbeat-failure")
		e.dp.fixedCause = 0 // as above: a datapath outage during teardown must not strand the session's resources
		e.pc.Shutdown()
	case 3:
		vTag("end=report-response-context-not-found")
		e.dp.fixedCause = 1
		e.vSend(message.NewSessionReportResponse(0, 0, up, 3, 0, ie.NewCause(ie.CauseSessionContextNotFound)))
	}
	vCover("ended")
	vReclaimed(e, "ended", poolFree)
}

// H_C05_cycles: more attach/detach cycles than the smallest pool has
// elements: none may be refused for lack of resources.
func H_C05_cycles() {
	vConcreteClock(1000000)
	e := vNewEnv(true)
	e.u.ippool, _ = NewIPPool("10.250.0.0/30") // 2 addresses
	e.pc.rng = rand.New(&vRandSource{nonzero: true})
	e.pc.maxRetries = 1
	e.dp.fixedCause = 1
	for c := 0; c < vC05Cycles; c++ {
		pdrs, fars, qers := vConcreteRules()
		pdrs[0].choose = true
		pdrs[0].ueChoose, pdrs[1].ueChoose = true, true
		before := len(e.conn.writes)
		e.vSend(vEstablishment(uint32(10+c), 0xc0ffee, "cp.test", pdrs, fars, qers))
		vAssert("cycle:answered", len(e.conn.writes) == before+1)
		r, ok := e.vLastReply().(*message.SessionEstablishmentResponse)
		vAssert("cycle:establishment-not-refused-for-lack-of-resources", ok && vCauseOf(r.Cause) == ie.CauseRequestAccepted)
		fs, _ := r.UPFSEID.FSEID()
		switch vChoose("end", 3) {
		case 0:
			e.vSend(vDeletion(uint32(100+c), fs.SEID))
		case 1:
			e.vSend(message.NewSessionReportResponse(0, 0, fs.SEID, uint32(100+c), 0, ie.NewCause(ie.CauseSessionContextNotFound)))
		case 2:
			// association teardown body (the connection object is reused by the harness)
			for _, sess := range e.pc.store.GetAllSessions() {
				e.u.SendMsgToUPF(upfMsgTypeDel, sess.PacketForwardingRules, PacketForwardingRules{})
				e.pc.RemoveSession(sess)
			}
		}
		vAssert("cycle:teids-released", len(e.u.fteidGenerator.usedMap) == 0)
		vAssert("cycle:address-returned", len(e.u.ippool.freePool) == 2)
	}
	vCover("cycles")
	vReclaimed(e, "after-cycles", 2)
}
