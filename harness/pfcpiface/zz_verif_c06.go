//go:build verif

package pfcpiface

import (
	"fmt"
	"net"
	"sync"
)

// C06 — UE IP pool: in range, exclusive, sticky, conserved.

var vC06Prefix = 29 // /30 .. /28: pool 10.250.0.0/<prefix>

func vPoolSize() int { return (1 << (32 - vC06Prefix)) - 2 }

func vIPEq(a, b net.IP) bool {
	if len(a) != 4 || len(b) != 4 {
		return false
	}
	return vAnd(vAnd(a[0] == b[0], a[1] == b[1]), vAnd(a[2] == b[2], a[3] == b[3]))
}

// vPoolState builds a pool in an arbitrary state satisfying the representation
// invariant I: the N host addresses of the prefix are split between the free
// list (k of them, any order) and the inventory (N-k, under pairwise distinct
// SEIDs); all N addresses are pairwise distinct, inside the prefix and
// neither its network nor its broadcast address.
func vPoolState() (*IPPool, []net.IP, []uint64) {
	n := vPoolSize()
	p := &IPPool{inventory: make(map[uint64]net.IP)}
	var all []net.IP
	for j := 0; j < n; j++ {
		x := vU8("host")
		vAssume(x >= 1)
		vAssume(int(x) <= n)
		ip := net.IP{10, 250, 0, x}
		for _, o := range all {
			vAssume(o[3] != x)
		}
		all = append(all, ip)
	}
	k := vChoose("nfree", n+1)
	var seids []uint64
	for j := 0; j < n; j++ {
		if j < k {
			p.freePool = append(p.freePool, all[j])
			continue
		}
		s := vU64("seid")
		for _, o := range seids {
			vAssume(o != s)
		}
		seids = append(seids, s)
		p.inventory[s] = all[j]
	}
	vGuarded(p.inventory, &p.mu, "IPPool.inventory")
	vGuarded(&p.freePool, &p.mu, "IPPool.freePool")
	return p, all, seids
}

// vPoolInvariant asserts I on the pool's current state.
func vPoolInvariant(p *IPPool, tag string) {
	n := vPoolSize()
	var cur []net.IP
	cur = append(cur, p.freePool...)
	for _, ip := range p.inventory {
		cur = append(cur, ip)
	}
	vAssert(tag+":conserved(|free|+|held|=N)", len(cur) == n)
	ok := true
	for a := 0; a < len(cur); a++ {
		ip := cur[a]
		vAssert(tag+":ipv4-len", len(ip) == 4)
		inRange := vAnd(vAnd(ip[0] == 10, ip[1] == 250), vAnd(ip[2] == 0, vAnd(ip[3] >= 1, int(ip[3]) <= n)))
		ok = vAnd(ok, inRange)
		for b := a + 1; b < len(cur); b++ {
			ok = vAnd(ok, vNot(vIPEq(ip, cur[b])))
		}
	}
	vAssert(tag+":in-range-not-net-not-bcast-and-exclusive", ok)
}

// H_C06_alloc: one LookupOrAllocIP(s) from an arbitrary valid state.
func H_C06_alloc() {
	p, _, seids := vPoolState()
	s := vU64("s")
	nfree := len(p.freePool)
	var head net.IP
	if nfree > 0 {
		head = p.freePool[0]
	}
	held := false
	for _, o := range seids {
		held = vOr(held, o == s)
	}
	var before net.IP
	if b, ok := p.inventory[s]; ok {
		before = b
	}
	ip, err := p.LookupOrAllocIP(s)
	vObserve("alloc", err != nil, len(p.freePool), len(p.inventory))
	if err != nil {
		vCover("alloc-refused")
		vAssert("refused-only-when-every-address-is-held", vAnd(nfree == 0, vNot(held)))
		vAssert("refusal-changes-nothing", vAnd(len(p.freePool) == 0, len(p.inventory) == len(seids)))
		vPoolInvariant(p, "after-refusal")
		return
	}
	vAssert("ipv4", len(ip) == 4)
	if before != nil {
		vCover("lookup-existing")
		vAssert("sticky:same-address-for-same-session", vIPEq(ip, before))
		vAssert("lookup-changes-nothing", vAnd(len(p.freePool) == nfree, len(p.inventory) == len(seids)))
	} else {
		vCover("alloc-new")
		vAssert("new-allocation-takes-head-of-free-list", vIPEq(ip, head))
		vAssert("free-list-shrinks-by-one", len(p.freePool) == nfree-1)
		vAssert("inventory-grows-by-one", len(p.inventory) == len(seids)+1)
		got, ok := p.inventory[s]
		vAssert("recorded-for-session", vAnd(ok, vIPEq(got, ip)))
		// the returned slice must not alias pool storage
		vAssert("no-alias", &ip[0] != &got[0])
	}
	vPoolInvariant(p, "after-alloc")
	// asking again returns the same address
	ip2, err2 := p.LookupOrAllocIP(s)
	vAssert("second-lookup-ok", err2 == nil)
	vAssert("second-lookup-same", vIPEq(ip, ip2))
	vAssert("not-locked-after-return", vNot(vHeldC06(p)))
}

func vHeldC06(p *IPPool) bool {
	if vInEngine() {
		return vHeld(&p.mu)
	}
	return false
}

// H_C06_dealloc: one DeallocIP(s) from an arbitrary valid state.
func H_C06_dealloc() {
	p, _, seids := vPoolState()
	s := vU64("s")
	nfree := len(p.freePool)
	var before net.IP
	if b, ok := p.inventory[s]; ok {
		before = b
	}
	err := p.DeallocIP(s)
	vObserve("dealloc", err != nil, len(p.freePool), len(p.inventory))
	if before == nil {
		vCover("dealloc-stranger")
		vAssert("stranger-refused", err != nil)
		vAssert("stranger-changes-nothing", vAnd(len(p.freePool) == nfree, len(p.inventory) == len(seids)))
	} else {
		vCover("dealloc-holder")
		vAssert("holder-ok", err == nil)
		vAssert("exactly-its-address-becomes-reusable", vAnd(len(p.freePool) == nfree+1, vIPEq(p.freePool[nfree], before)))
		_, still := p.inventory[s]
		vAssert("entry-removed", vNot(still))
		vAssert("inventory-shrinks-by-one", len(p.inventory) == len(seids)-1)
	}
	vPoolInvariant(p, "after-dealloc")
}

// H_C06_new: construction on concrete prefixes.
func H_C06_new() {
	cidrs := []string{"10.250.0.0/30", "10.250.0.0/29", "10.250.0.8/29", "10.250.0.0/28", "10.250.0.5/29", "192.168.1.0/24"}
	sizes := []int{2, 6, 6, 14, 6, 254}
	bases := []byte{0, 0, 8, 0, 0, 0}
	c := vChoose("cidr", len(cidrs))
	p, err := NewIPPool(cidrs[c])
	vAssert("constructs", err == nil)
	vAssert("size", len(p.freePool) == sizes[c])
	vAssert("inventory-empty", len(p.inventory) == 0)
	for j, ip := range p.freePool {
		vAssert("host-j", vAnd(len(ip) == 4, ip[3] == bases[c]+byte(j)+1))
	}
	vObserve("new", len(p.freePool))
	vCover("new")
	// (/31 is accepted by the code and yields an empty pool from which nothing
	// can be allocated; C06 quantifies over /30 and larger, so that is noted,
	// not asserted.)
	for _, bad := range []string{"10.250.0.0/32", "", "10.250.0.0", "nonsense/8"} {
		_, err := NewIPPool(bad)
		vAssert("too-small-or-malformed-refused", err != nil)
	}
}

// R_C06_pool exercises the pool from several goroutines (native -race replay
// of a lock-discipline violation).
func R_C06_pool() {
	p, _ := NewIPPool("10.250.0.0/24")
	var wg sync.WaitGroup
	for g := 0; g < 4; g++ {
		wg.Add(1)
		go func(g int) {
			defer wg.Done()
			for r := 0; r < 300; r++ {
				s := uint64(g*1000 + r%50)
				_, _ = p.LookupOrAllocIP(s)
				_ = p.String()
				_ = p.holds(s)
				_ = p.DeallocIP(s)
			}
		}(g)
	}
	wg.Wait()
}

// H_C06_conc: two goroutines on one pool, every interleaving of their critical
// sections (preemption at each lock acquisition, at most 3 per path): thread 1
// asks for an address for session s1; thread 2 asks for s2 (possibly the same
// session) and may release it again. Afterwards: stickiness, exclusivity and
// conservation.
func H_C06_conc() {
	p, err := NewIPPool("10.250.0.0/29")
	vAssert("pool-created", err == nil)
	total := len(p.freePool)
	if vBool("one_session_already_holds") {
		_, e := p.LookupOrAllocIP(0x77)
		vAssert("pre-allocation-ok", e == nil)
	}
	s1, s2 := vU64("seid1"), vU64("seid2")
	vAssume(s1 != 0x77)
	vAssume(s2 != 0x77)
	release := vBool("thread2_releases")
	var a, b net.IP
	var ea, eb, er error
	vPreemptAtLocks(3)
	var wg sync.WaitGroup
	wg.Add(2)
	go func() {
		defer wg.Done()
		a, ea = p.LookupOrAllocIP(s1)
	}()
	go func() {
		defer wg.Done()
		b, eb = p.LookupOrAllocIP(s2)
		if release {
			er = p.DeallocIP(s2)
		}
	}()
	wg.Wait()
	vJoin()
	vAssert("allocations-succeed-while-addresses-are-free", ea == nil && eb == nil)
	if s1 == s2 && !release {
		vCover("same-session")
		vAssert("same-session-same-address", a.Equal(b))
	}
	if s1 != s2 {
		vCover("two-sessions")
		vAssert("two-sessions-two-addresses", !a.Equal(b))
	}
	_ = er
	// conservation: every address is either free or held, none twice, none lost
	seen := map[uint32]bool{}
	n := 0
	for _, ip := range p.freePool {
		k := ip2int(ip)
		vAssert("free-address-not-twice", !seen[k])
		seen[k] = true
		n++
	}
	for _, ip := range p.inventory {
		k := ip2int(ip)
		vAssert("held-address-not-also-free-or-held-twice", !seen[k])
		seen[k] = true
		n++
	}
	vAssert("no-address-lost-or-invented", n == total)
	vCover("conc")
}

// R_C06_conc: the native counterpart: real goroutines behind a barrier, many rounds.
func R_C06_conc() {
	for round := 0; round < 2000; round++ {
		p, _ := NewIPPool("10.250.0.0/28")
		total := len(p.freePool)
		const workers = 8
		var start, wg sync.WaitGroup
		start.Add(1)
		got := make([]net.IP, workers)
		for g := 0; g < workers; g++ {
			wg.Add(1)
			go func(g int) {
				defer wg.Done()
				start.Wait()
				seid := uint64(1 + g%2) // two sessions, four callers each
				ip, err := p.LookupOrAllocIP(seid)
				if err == nil {
					got[g] = ip
				}
				if g == 7 {
					_ = p.DeallocIP(3)
				}
			}(g)
		}
		start.Done()
		wg.Wait()
		for g := 2; g < workers; g++ {
			if !got[g].Equal(got[g%2]) {
				vStressFail(fmt.Sprintf("round %d: session %d was handed %v and %v", round, 1+g%2, got[g%2], got[g]))
			}
		}
		if got[0].Equal(got[1]) {
			vStressFail(fmt.Sprintf("round %d: two sessions hold %v", round, got[0]))
		}
		if len(p.freePool)+len(p.inventory) != total {
			vStressFail(fmt.Sprintf("round %d: %d free + %d held != %d", round, len(p.freePool), len(p.inventory), total))
		}
	}
}
