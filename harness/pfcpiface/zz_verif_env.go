//go:build verif

package pfcpiface

import (
	"context"
	"github.com/google/gopacket"
	"github.com/google/gopacket/layers"
	"math/rand"
	"net"
	"time"

	"github.com/wmnsk/go-pfcp/ie"
	"github.com/wmnsk/go-pfcp/message"
)

// vEnv is a PFCPConn built directly (no sockets, no goroutines) on fakes.
type vEnv struct {
	pc   *PFCPConn
	conn *vConn
	dp   *vDatapath
	m    *vMetrics
	u    *upf
	done chan string
}

var vTS = time.Unix(1700000000, 0).UTC()

func vNewEnv(ueIPAlloc bool) *vEnv {
	e := &vEnv{conn: vNewConn(), dp: &vDatapath{connected: true}, m: &vMetrics{}}
	e.u = &upf{
		enableUeIPAlloc: ueIPAlloc,
		accessIP:        net.IP{198, 18, 0, 1},
		coreIP:          net.IP{198, 19, 0, 1},
		nodeID:          "upf.test",
		dnn:             "internet",
		fteidGenerator:  NewFTEIDGenerator(),
		datapath:        e.dp,
		maxReqRetries:   2,
		respTimeout:     time.Second,
		reportNotifyChan: make(chan uint64, 16),
		hbInterval:       time.Hour,
	}
	// service loops started by handlers are not run by the engine (natively the
	// heartbeat monitor idles on its one-hour ticker)
	vSkipGo("(*github.com/omec-project/upf-epc/pfcpiface.PFCPConn).startHeartBeatMonitor")
	if ueIPAlloc {
		e.u.ippool, _ = NewIPPool("10.250.0.0/29")
	}
	e.done = make(chan string, 4)
	e.pc = &PFCPConn{
		ctx:            context.Background(),
		Conn:           e.conn,
		ts:             recoveryTS{local: vTS},
		rng:            rand.New(&vRandSource{}),
		maxRetries:     100,
		store:          NewInMemoryStore(),
		upf:            e.u,
		done:           e.done,
		shutdown:       make(chan struct{}),
		InstrumentPFCP: e.m,
		hbReset:        make(chan struct{}, 100),
	}
	vInstallPacketStub()
	e.pc.setLocalNodeID(e.u.nodeID)
	e.pc.nodeID.remote = "cp.test"
	return e
}

// vSend marshals a message and injects it into the real HandlePFCPMsg (so it
// goes through the real message.Parse again).
func (e *vEnv) vSend(m message.Message) {
	b := make([]byte, m.MarshalLen())
	if err := m.MarshalTo(b); err != nil {
		panic("harness: cannot marshal request")
	}
	e.pc.HandlePFCPMsg(b)
}

// vLastReply parses the last datagram the fake socket received.
func (e *vEnv) vLastReply() message.Message {
	if len(e.conn.writes) == 0 {
		return nil
	}
	m, err := message.Parse(e.conn.writes[len(e.conn.writes)-1])
	if err != nil {
		return nil
	}
	return m
}

func vCPFSEID(seid uint64) *ie.IE { return ie.NewFSEID(seid, net.IP{10, 0, 0, 2}, nil) }

// H_SMOKE_heartbeat: engine bring-up check (not registered for a property).
func H_SMOKE_heartbeat() {
	e := vNewEnv(false)
	seq := vU32("seq") & 0xffffff
	e.vSend(message.NewHeartbeatRequest(seq, ie.NewRecoveryTimeStamp(vTS), nil))
	vAssert("one-reply", len(e.conn.writes) == 1)
	r := e.vLastReply()
	vAssert("is-hb-response", r != nil && r.MessageType() == message.MsgTypeHeartbeatResponse)
	vAssert("seq-echoed", r.Sequence() == seq)
	vCover("hb")
}

// H_SMOKE_establish: engine bring-up check.
func H_SMOKE_establish() {
	e := vNewEnv(false)
	e.dp.fixedCause = 1
	seq := vU32("seq") & 0xffffff
	cp := vU64("cpseid")
	pdrs, fars, qers := vBaselineRules("")
	e.vSend(vEstablishment(seq, cp, "cp.test", pdrs, fars, qers))
	vAssert("one-reply", len(e.conn.writes) == 1)
	r := e.vLastReply()
	vAssert("is-est-response", r != nil && r.MessageType() == message.MsgTypeSessionEstablishmentResponse)
	vAssert("seq-echoed", r.Sequence() == seq)
	vAssert("seid-is-cp", r.SEID() == cp)
	res := r.(*message.SessionEstablishmentResponse)
	c, _ := res.Cause.Cause()
	vObserve("cause", c, len(e.dp.msgs))
	vAssert("accepted", c == ie.CauseRequestAccepted)
	vCover("est")
	fs, _ := res.UPFSEID.FSEID()
	e.vSend(vDeletion(seq+1, fs.SEID))
	r2 := e.vLastReply()
	vAssert("del-response", r2 != nil && r2.MessageType() == message.MsgTypeSessionDeletionResponse)
	vAssert("del-seid", r2.SEID() == cp)
	vAssert("store-empty", len(e.pc.store.GetAllSessions()) == 0)
}

// vEMLayers records, under the engine, the layers handed to
// gopacket.SerializeLayers (the byte encoding is gopacket's; it needs package
// initialisers the engine does not run). The stub leaves a 1-byte packet
// holding the index of the record, so the harness can find it again.
type vEMRecord struct {
	src, dst     [4]byte
	sport, dport uint16
	teid         uint32
	gtpType      uint8
	proto        uint8
}

var vEMLayers []vEMRecord

func vInstallPacketStub() {
	if !vInEngine() {
		return
	}
	vEMLayers = nil
	vOverride("github.com/google/gopacket.SerializeLayers", func(w gopacket.SerializeBuffer, opts gopacket.SerializeOptions, ls ...gopacket.SerializableLayer) error {
		var r vEMRecord
		for _, l := range ls {
			switch x := l.(type) {
			case *layers.IPv4:
				copy(r.src[:], x.SrcIP)
				copy(r.dst[:], x.DstIP)
				r.proto = uint8(x.Protocol)
			case *layers.UDP:
				r.sport, r.dport = uint16(x.SrcPort), uint16(x.DstPort)
			case *layers.GTPv1U:
				r.teid, r.gtpType = x.TEID, x.MessageType
			}
		}
		vEMLayers = append(vEMLayers, r)
		_ = w.Clear()
		b, err := w.PrependBytes(1)
		if err != nil {
			return err
		}
		b[0] = byte(len(vEMLayers) - 1)
		return nil
	})
}

// vEMDecode returns the fields of an end-marker packet: from the recorded
// layers under the engine, from the real bytes natively.
func vEMDecode(pkt []byte) vEMRecord {
	if vInEngine() {
		return vEMLayers[pkt[0]]
	}
	var r vEMRecord
	// Ethernet (14) + IPv4 (20) + UDP (8) + GTPv1-U (8)
	if len(pkt) < 50 {
		return r
	}
	pkt = pkt[14:]
	r.proto = pkt[9]
	copy(r.src[:], pkt[12:16])
	copy(r.dst[:], pkt[16:20])
	r.sport = uint16(pkt[20])<<8 | uint16(pkt[21])
	r.dport = uint16(pkt[22])<<8 | uint16(pkt[23])
	r.gtpType = pkt[29]
	r.teid = uint32(pkt[32])<<24 | uint32(pkt[33])<<16 | uint32(pkt[34])<<8 | uint32(pkt[35])
	return r
}
