//go:build verif

// Fakes shared by the harnesses. They implement the interfaces the code under
// test talks to (net.Conn, metrics.InstrumentPFCP, datapath, rand.Source64) in
// ordinary Go, so the same fake runs under the engine and in native replay;
// their nondeterminism comes only from v* inputs.

package pfcpiface

import (
	"math/rand"
	"net"
	"time"

	"github.com/omec-project/upf-epc/pfcpiface/metrics"
)

// vRandSource is a rand.Source64 whose outputs are arbitrary (adversarial,
// repeating allowed).
type vRandSource struct {
	n       int
	nonzero bool // the harness is not about SEID draws: exclude the (reserved) value 0
	counter bool // concrete draws 1, 2, 3, ... (SEID values are irrelevant to the harness)
}

func (s *vRandSource) Int63() int64    { return int64(s.Uint64() >> 1) }
func (s *vRandSource) Seed(seed int64) {}
func (s *vRandSource) Uint64() uint64 {
	s.n++
	if s.counter {
		return uint64(s.n)
	}
	v := vU64("rng")
	if s.nonzero {
		vAssume(v != 0)
	}
	return v
}

// vMetrics is a recording metrics.InstrumentPFCP mirroring the gauge logic of
// metrics.Service.SaveSessions (Duration == 0 -> Inc, otherwise Dec).
type vMetrics struct {
	sessionsGauge int
	saveSessions  int
	messages      int
}

func (m *vMetrics) SaveMessages(msg *metrics.Message) { m.messages++ }
func (m *vMetrics) SaveSessions(s *metrics.Session) {
	m.saveSessions++
	if s.Duration == 0 {
		m.sessionsGauge++
		return
	}
	m.sessionsGauge--
}
func (m *vMetrics) Stop() error { return nil }

// vConn is a recording net.Conn.
type vConn struct {
	writes [][]byte
	closed int
	local  net.Addr
	remote net.Addr
	werr   bool
}

func (c *vConn) Read(b []byte) (int, error) { return 0, net.ErrClosed }
func (c *vConn) Write(b []byte) (int, error) {
	cp := make([]byte, len(b))
	copy(cp, b)
	c.writes = append(c.writes, cp)
	return len(b), nil
}
func (c *vConn) Close() error                       { c.closed++; return nil }
func (c *vConn) LocalAddr() net.Addr                { return c.local }
func (c *vConn) RemoteAddr() net.Addr               { return c.remote }
func (c *vConn) SetDeadline(t time.Time) error      { return nil }
func (c *vConn) SetReadDeadline(t time.Time) error  { return nil }
func (c *vConn) SetWriteDeadline(t time.Time) error { return nil }

func vNewConn() *vConn {
	return &vConn{
		local:  &net.UDPAddr{IP: net.IPv4(10, 0, 0, 1).To4(), Port: 8805},
		remote: &net.UDPAddr{IP: net.IPv4(10, 0, 0, 2).To4(), Port: 8805},
	}
}

// vDatapath is a recording datapath. SendMsgToUPF answers with an arbitrary
// cause out of {accepted, rejected} (vBool) unless fixed.
type vDatapath struct {
	slices      []SliceInfo
	sliceCalls  int
	msgs        []vDpMsg
	endMarkers  [][]byte
	emCalls     int
	connected   bool
	fixedCause  uint8 // 0: nondeterministic
	exits       int
	order       []string
}

type vDpMsg struct {
	method  upfMsgType
	all     PacketForwardingRules
	updated PacketForwardingRules
	cause   uint8
}

func (d *vDatapath) Exit()                         { d.exits++ }
func (d *vDatapath) SetUpfInfo(u *upf, conf *Conf) {}
func (d *vDatapath) AddSliceInfo(s *SliceInfo) error {
	d.sliceCalls++
	d.slices = append(d.slices, *s)
	return nil
}
func (d *vDatapath) SendEndMarkers(l *[][]byte) error {
	d.emCalls++
	d.order = append(d.order, "endmarkers")
	d.endMarkers = append(d.endMarkers, (*l)...)
	return nil
}
func (d *vDatapath) SendMsgToUPF(method upfMsgType, all PacketForwardingRules, updated PacketForwardingRules) uint8 {
	cause := d.fixedCause
	if r := all; method != upfMsgTypeMod && len(r.pdrs)+len(r.fars)+len(r.qers) == 0 {
		cause = 1 // nothing to write: both plug-ins answer accepted without touching the datapath
	} else if method == upfMsgTypeMod && len(updated.pdrs)+len(updated.fars)+len(updated.qers) == 0 {
		cause = 1
	}
	if cause == 0 {
		cause = 1 // ie.CauseRequestAccepted
		if vBool("dp_rejects") {
			cause = 64 // ie.CauseRequestRejected
		}
	}
	d.order = append(d.order, "msg")
	d.msgs = append(d.msgs, vDpMsg{method, vCopyRules(all), vCopyRules(updated), cause})
	return cause
}
func (d *vDatapath) IsConnected(accessIP *net.IP) bool { return d.connected }

func vCopyRules(r PacketForwardingRules) PacketForwardingRules {
	var c PacketForwardingRules
	c.pdrs = append(c.pdrs, r.pdrs...)
	c.fars = append(c.fars, r.fars...)
	c.qers = append(c.qers, r.qers...)
	return c
}

func vRng() *rand.Rand { return rand.New(&vRandSource{counter: true}) }
