//go:build verif

package pfcpiface

import "github.com/prometheus/client_golang/prometheus"

func (d *vDatapath) SummaryLatencyJitter(uc *upfCollector, ch chan<- prometheus.Metric) {}
func (d *vDatapath) PortStats(uc *upfCollector, ch chan<- prometheus.Metric)            {}
func (d *vDatapath) SummaryGtpuLatency(uc *upfCollector, ch chan<- prometheus.Metric)   {}
func (d *vDatapath) SessionStats(pc *PfcpNodeCollector, ch chan<- prometheus.Metric) error {
	return nil
}

func (d *vTDatapath) SummaryLatencyJitter(uc *upfCollector, ch chan<- prometheus.Metric) {}
func (d *vTDatapath) PortStats(uc *upfCollector, ch chan<- prometheus.Metric)            {}
func (d *vTDatapath) SessionStats(pc *PfcpNodeCollector, ch chan<- prometheus.Metric) error {
	return nil
}
func (d *vTDatapath) SummaryGtpuLatency(uc *upfCollector, ch chan<- prometheus.Metric)   {}
