//go:build verif

package pfcpiface

import (
	"github.com/wmnsk/go-pfcp/ie"
	"github.com/wmnsk/go-pfcp/message"
)

// C03 — BESS tables are exactly the image of the live sessions' rules.

// vBessActionOf: the FAR action encoding the statement fixes
// (forward downlink/uplink by destination interface, drop, buffer/notify).
func vBessActionOf(f far) uint64 {
	switch {
	case f.applyAction&ActionForward != 0:
		if f.dstIntf == ie.DstInterfaceAccess {
			return farForwardD
		}
		return farForwardU
	case f.applyAction&ActionDrop != 0:
		return farDrop
	case f.applyAction&(ActionBuffer|ActionNotify) != 0:
		return farNotify
	}
	return farDrop
}

// vCheckBessImage compares the modules of the in-harness BESS with what the
// live rules in the agent's session store denote (concrete rule values).
func vCheckBessImage(sessions []PFCPSession, srv *vBessServer, tag string) {
	wantPDR, wantFAR, wantApp, wantSess := 0, 0, 0, 0
	for _, s := range sessions {
		for _, p := range s.pdrs {
			rules, err := CreatePortRangeCartesianProduct(p.appFilter.srcPortRange, p.appFilter.dstPortRange)
			vAssert(tag+":live-pdr-has-a-representable-port-range", err == nil)
			wantPDR += len(rules)
			// the harness's sessions all name their UE address: the PDR matches it
			// exactly, on the side the UE is on (inner source uplink, destination downlink)
			if p.srcIface == access {
				vAssert(tag+":uplink-pdr-matches-exactly-the-ue-address", p.ueAddress != 0 && p.appFilter.srcIP == p.ueAddress && p.appFilter.srcIPMask == 0xffffffff)
			} else if p.srcIface == core {
				vAssert(tag+":downlink-pdr-matches-exactly-the-ue-address", p.ueAddress != 0 && p.appFilter.dstIP == p.ueAddress && p.appFilter.dstIPMask == 0xffffffff)
			}
			var qerID uint64
			if len(p.qerIDList) > 0 {
				qerID = uint64(p.qerIDList[0])
			}
			for _, r := range rules {
				n := 0
				for _, e := range srv.pdr {
					if e.values == [8]uint64{uint64(p.srcIface), uint64(p.tunnelIP4Dst), uint64(p.tunnelTEID), uint64(p.appFilter.srcIP), uint64(p.appFilter.dstIP), uint64(r.srcPort), uint64(r.dstPort), uint64(p.appFilter.proto)} &&
						e.masks == [8]uint64{uint64(p.srcIfaceMask), uint64(p.tunnelIP4DstMask), uint64(p.tunnelTEIDMask), uint64(p.appFilter.srcIPMask), uint64(p.appFilter.dstIPMask), uint64(r.srcMask), uint64(r.dstMask), uint64(p.appFilter.protoMask)} {
						n++
						vAssert(tag+":pdr-entry-carries-session-far-first-qer", e.valuesv == [5]uint64{uint64(p.pdrID), p.fseID, uint64(p.ctrID), qerID, uint64(p.farID)})
						vAssert(tag+":pdr-entry-decap-gate", e.gate == uint64(p.needDecap))
						vAssert(tag+":pdr-entry-priority-orders-as-precedence", e.prio == int64(0xffffffff)-int64(p.precedence))
					}
				}
				vAssert(tag+":pdr-entry-present-once-per-port-rule", n == 1)
			}
		}
		for _, f := range s.fars {
			wantFAR++
			n := 0
			for _, e := range srv.far {
				if e.fields == [2]uint64{uint64(f.farID), f.fseID} {
					n++
					vAssert(tag+":far-entry-as-sent", e.values == [6]uint64{vBessActionOf(f), uint64(f.tunnelType), uint64(f.tunnelIP4Src), uint64(f.tunnelIP4Dst), uint64(f.tunnelTEID), uint64(f.tunnelPort)})
				}
			}
			vAssert(tag+":one-far-entry-per-FAR", n == 1)
		}
		for _, q := range s.qers {
			mod := AppQerLookup
			if q.qosLevel == SessionQos {
				mod = SessQerLookup
				wantSess += 2
			} else {
				wantApp += 2
			}
			for _, dir := range []uint64{access, core} {
				n := 0
				for _, e := range srv.qos[mod] {
					var key []uint64
					if q.qosLevel == SessionQos {
						key = []uint64{dir, q.fseID}
					} else {
						key = []uint64{dir, uint64(q.qerID), q.fseID}
					}
					if vEqU64sConcrete(e.fields, key) {
						n++
					}
				}
				vAssert(tag+":one-uplink-and-one-downlink-entry-per-QER", n == 1)
			}
		}
	}
	vAssert(tag+":nothing-else-in-pdrLookup", len(srv.pdr) == wantPDR)
	vAssert(tag+":nothing-else-in-farLookup", len(srv.far) == wantFAR)
	vAssert(tag+":nothing-else-in-appQERLookup", len(srv.qos[AppQerLookup]) == wantApp)
	vAssert(tag+":nothing-else-in-sessionQERLookup", len(srv.qos[SessQerLookup]) == wantSess)
	vAssert(tag+":only-known-commands", srv.unknown == 0)
}

var vC03Steps = 2

// H_C03_history: establish / modify (create, update, remove) / delete over up
// to two sessions on the BESS plug-in.
func H_C03_history() {
	st := vNewBessStack()
	e, srv := st.e, st.env.srv
	var seids [2]uint64
	var live [2]bool
	var fars [2][]vFARSpec
	var qers [2][]vQERSpec
	var pdrs [2][]vPDRSpec
	var created [2]bool
	seq := uint32(1)
	check := func(tag string) { vCheckBessImage(e.pc.store.GetAllSessions(), srv, tag) }
	establish := func(k int) bool {
		p, f, q := vSessionRules(k)
		fars[k], qers[k], pdrs[k] = f, q, p
		seq++
		e.vSend(vEstablishment(seq, uint64(0xc0+k), "cp.test", p, f, q))
		r, ok := e.vLastReply().(*message.SessionEstablishmentResponse)
		if !ok || vCauseOf(r.Cause) != ie.CauseRequestAccepted {
			return false
		}
		fs, _ := r.UPFSEID.FSEID()
		seids[k], live[k] = fs.SEID, true
		return true
	}
	vAssert("first-establishment-accepted", establish(0))
	vCover("established")
	check("after-establishment")
	for step := 0; step < vC03Steps; step++ {
		switch vChoose("step", 5) {
		case 0:
			vTag("second-session")
			if live[1] {
				return
			}
			vAssert("second-establishment-accepted", establish(1))
			vCover("two-sessions")
			check("after-second-establishment")
		case 1:
			vTag("modify")
			k := vChoose("which", 2)
			if !live[k] {
				return
			}
			var ies []*ie.IE
			expectReject := false
			switch vChoose("change", 8) {
			case 7: // update a PDR, its QER list given with the session-level QER FIRST
				up := pdrs[k][0]
				up.qerIDs = vReversed(up.qerIDs)
				ies = append(ies, up.update())
			case 6: // a late Update FAR for a FAR the session does not have: nothing may be written for it
				ghost := fars[k][1]
				ghost.id = 9
				ghost.teid = 0x9000 + uint32(k)
				ies = append(ies, ghost.update())
			case 0: // update FAR: new tunnel
				u := fars[k][1]
				u.peer, u.teid = vGNBs[vChoose("new_gnb", len(vGNBs))], 0x7000+uint32(k)
				fars[k][1] = u
				ies = append(ies, u.update())
			case 1: // update FAR: buffer
				u := fars[k][1]
				u.action = ActionBuffer | ActionNotify
				fars[k][1] = u
				ies = append(ies, u.update())
			case 2: // create a PDR + FAR (once per session: rule ids are unique within a session, PFCP 5.2.1)
				if created[k] {
					return
				}
				created[k] = true
				np := vPDRSpec{uplink: true, id: 3, prec: 50, teid: 0x4000 + uint32(k), n3: [4]byte{198, 18, 0, 1}, ue: [4]byte{10, 250, 0, byte(5 + k)}, farID: 3, qerIDs: pdrs[k][0].qerIDs,
					sdf: "permit out tcp from 9.9.9.9 443 to assigned"} // same QER set as the session's other PDRs (re-marking of session QERs is C09)
				if vBool("session_qer_listed_first") {
					np.qerIDs = vReversed(np.qerIDs) // the order within the list is the CP's choice
				}
				nf := vFARSpec{id: 3, action: ActionForward, uplink: true}
				ies = append(ies, np.create(), nf.create())
			case 3: // update ONE QER (an application QER, or the session-level QER alone): close the gates
				qi := vChoose("which_qer", len(qers[k]))
				u := qers[k][qi]
				u.gate = 0x5
				qers[k][qi] = u
				ies = append(ies, u.update())
			case 5: // update a PDR's match (new TEID), then a FAR update that cannot be parsed: rejected as a whole
				up := pdrs[k][0]
				up.teid = 0x8000 + uint32(k)
				bad := fars[k][1]
				bad.action = 0
				ies = append(ies, up.update(), bad.update())
				expectReject = true
			case 4: // remove one PDR (first or last of the session's list) and its FAR
				id := 1 + vChoose("remove_which", 2)
				ies = append(ies, ie.NewRemovePDR(ie.NewPDRID(uint16(id))), ie.NewRemoveFAR(ie.NewFARID(uint32(10+id))))
			}
			seq++
			e.vSend(message.NewSessionModificationRequest(0, 0, seids[k], seq, 0, ies...))
			m, ok := e.vLastReply().(*message.SessionModificationResponse)
			vAssert("modification-answered", ok)
			if vCauseOf(m.Cause) != ie.CauseRequestAccepted {
				vCover("modification-rejected")
				// a rejected request leaves the tables - and the session record they are the image of - as they were
				check("after-rejected-modification")
				if !expectReject {
					return
				}
				continue
			}
			vAssert("unparsable-update-rejected", !expectReject)
			vCover("modified")
			check("after-modification")
		case 2:
			vTag("delete")
			k := vChoose("which", 2)
			if !live[k] {
				return
			}
			seq++
			e.vSend(vDeletion(seq, seids[k]))
			d, ok := e.vLastReply().(*message.SessionDeletionResponse)
			vAssert("deletion-accepted", ok && vCauseOf(d.Cause) == ie.CauseRequestAccepted)
			live[k] = false
			vCover("deleted")
			check("after-deletion")
		case 3:
			vTag("unknown-session")
			n0 := len(srv.cmds)
			seq++
			e.vSend(message.NewSessionModificationRequest(0, 0, 0xdead, seq, 0, fars[0][1].update()))
			m, ok := e.vLastReply().(*message.SessionModificationResponse)
			vAssert("unknown-session-rejected", ok && vCauseOf(m.Cause) != ie.CauseRequestAccepted)
			vAssert("unknown-session-writes-nothing", len(srv.cmds) == n0)
			vCover("unknown")
		case 4:
			vTag("wrong-association")
			n0 := len(srv.cmds)
			p, f, q := vSessionRules(1)
			seq++
			e.vSend(vEstablishment(seq, 0xc9, "stranger.test", p, f, q))
			r, ok := e.vLastReply().(*message.SessionEstablishmentResponse)
			vAssert("wrong-association-rejected", ok && vCauseOf(r.Cause) != ie.CauseRequestAccepted)
			vAssert("wrong-association-writes-nothing", len(srv.cmds) == n0)
			vCover("wrong-association")
		}
	}
}

// H_C03_restart: whatever a previous incarnation left behind is wiped at
// start-up from the four lookup modules; the slice meter is kept.
func H_C03_restart() {
	st := vNewBessStack()
	e, srv := st.e, st.env.srv
	p, f, q := vSessionRules(0)
	e.vSend(vEstablishment(2, 0xc0, "cp.test", p, f, q))
	if vBool("two_sessions") {
		p, f, q = vSessionRules(1)
		e.vSend(vEstablishment(3, 0xc1, "cp.test", p, f, q))
	}
	_ = st.env.b.AddSliceInfo(&SliceInfo{uplinkMbr: 1000000, downlinkMbr: 2000000})
	vAssume(srv.total() > 4)
	slice := len(srv.qos["sliceMeter"])
	// the new incarnation (SetUpfInfo after the dial) clears the state
	nb := &bess{client: srv, endMarkerChan: make(chan []byte, 1)}
	nb.clearState()
	vAssert("pdrLookup-wiped", len(srv.pdr) == 0 && srv.clears["pdrLookup"] == 1)
	vAssert("farLookup-wiped", len(srv.far) == 0 && srv.clears["farLookup"] == 1)
	vAssert("appQERLookup-wiped", len(srv.qos[AppQerLookup]) == 0 && srv.clears[AppQerLookup] == 1)
	vAssert("sessionQERLookup-wiped", len(srv.qos[SessQerLookup]) == 0 && srv.clears[SessQerLookup] == 1)
	vAssert("slice-meter-kept", len(srv.qos["sliceMeter"]) == slice && srv.clears["sliceMeter"] == 0)
	vCover("restarted")
}

// H_C03_packet: classification semantics of the entries one PDR produces:
// a packet matches some entry iff it matches the PDR's source interface,
// tunnel endpoint, addresses, port ranges and protocol.
var vC03Width = 3

func H_C03_packet() {
	env := vNewBess()
	var p pdr
	p.srcIface, p.srcIfaceMask = uint8(1+vChoose("iface", 2)), 0xff
	p.tunnelIP4Dst, p.tunnelIP4DstMask = vU32("n3"), vIteU32(vBool("has_tunnel"), 0xffffffff, 0)
	p.tunnelTEID, p.tunnelTEIDMask = vU32("teid"), p.tunnelIP4DstMask
	plenS, plenD := vU8("src_plen"), vU8("dst_plen")
	vAssume(plenS <= 32)
	vAssume(plenD <= 32)
	p.appFilter.srcIPMask, p.appFilter.dstIPMask = vPrefixMask(plenS), vPrefixMask(plenD)
	p.appFilter.srcIP, p.appFilter.dstIP = vU32("src_ip")&p.appFilter.srcIPMask, vU32("dst_ip")&p.appFilter.dstIPMask
	p.appFilter.proto, p.appFilter.protoMask = vU8("proto"), vIteU8(vBool("has_proto"), 0xff, 0)
	sl, sh := vU16("sport_lo"), vU16("sport_hi")
	dl, dh := vU16("dport_lo"), vU16("dport_hi")
	vAssume(sl <= sh)
	vAssume(dl <= dh)
	// bound: true ranges at most vC03Width wide (all widths are C17's job)
	vAssume(vOr(refIsWild(sl, sh), uint32(sh)-uint32(sl) < uint32(vC03Width)))
	vAssume(vOr(refIsWild(dl, dh), uint32(dh)-uint32(dl) < uint32(vC03Width)))
	p.appFilter.srcPortRange, p.appFilter.dstPortRange = portRange{sl, sh}, portRange{dl, dh}
	p.precedence, p.pdrID, p.fseID, p.farID, p.ctrID = vU32("precedence"), uint32(vU16("pdr_id")), vU64("fseid"), vU32("far_id"), vU32("ctr")
	p.qerIDList = []uint32{vU32("qer_a"), vU32("qer_b")}[:vChoose("nqer", 3)]
	p.needDecap = uint8(vChoose("decap", 2))
	_, rerr := CreatePortRangeCartesianProduct(p.appFilter.srcPortRange, p.appFilter.dstPortRange)

	st := env.b.SendMsgToUPF(upfMsgTypeAdd, PacketForwardingRules{pdrs: []pdr{p}}, PacketForwardingRules{})
	vObserve("add", st, len(env.srv.pdr))
	if rerr != nil {
		vCover("unrepresentable")
		vAssert("unrepresentable-range-installs-nothing", len(env.srv.pdr) == 0)
		return
	}
	vCover("installed")
	// a symbolic packet
	pk := [8]uint64{uint64(vU8("pkt_iface")), uint64(vU32("pkt_tunnel_dst")), uint64(vU32("pkt_teid")), uint64(vU32("pkt_src")), uint64(vU32("pkt_dst")), uint64(vU16("pkt_sport")), uint64(vU16("pkt_dport")), uint64(vU8("pkt_proto"))}
	matched := false
	for _, e := range env.srv.pdr {
		m := true
		for k := 0; k < 8; k++ {
			m = vAnd(m, pk[k]&e.masks[k] == e.values[k]&e.masks[k])
		}
		matched = vOr(matched, m)
		var q0 uint64
		if len(p.qerIDList) > 0 {
			q0 = uint64(p.qerIDList[0])
		}
		vAssert("entry-carries-pdr-session-counter-first-qer-far", e.valuesv == [5]uint64{uint64(p.pdrID), p.fseID, uint64(p.ctrID), q0, uint64(p.farID)})
		vAssert("entry-gate-is-decap-flag", e.gate == uint64(p.needDecap))
		vAssert("entry-priority", e.prio == int64(0xffffffff)-int64(p.precedence))
	}
	want := vAnd(pk[0] == uint64(p.srcIface), vAnd(pk[1]&uint64(p.tunnelIP4DstMask) == uint64(p.tunnelIP4Dst)&uint64(p.tunnelIP4DstMask), pk[2]&uint64(p.tunnelTEIDMask) == uint64(p.tunnelTEID)&uint64(p.tunnelTEIDMask)))
	want = vAnd(want, vAnd(pk[3]&uint64(p.appFilter.srcIPMask) == uint64(p.appFilter.srcIP), pk[4]&uint64(p.appFilter.dstIPMask) == uint64(p.appFilter.dstIP)))
	want = vAnd(want, vAnd(refInRange(uint16(pk[5]), sl, sh), refInRange(uint16(pk[6]), dl, dh)))
	want = vAnd(want, pk[7]&uint64(p.appFilter.protoMask) == uint64(p.appFilter.proto)&uint64(p.appFilter.protoMask))
	vAssert("packet-classified-to-the-pdr-iff-it-matches-its-fields", matched == want)
	// deletion sends the same keys and leaves the module empty
	env.b.SendMsgToUPF(upfMsgTypeDel, PacketForwardingRules{pdrs: []pdr{p}}, PacketForwardingRules{})
	vAssert("delete-uses-the-add's-keys(module-empty)", len(env.srv.pdr) == 0)
}

// H_C03_wide: a PDR whose port range the Exact strategy cannot represent
// (wider than 100 ports): the request must not be accepted with the rule
// silently missing from pdrLookup.
func H_C03_wide() {
	st := vNewBessStack()
	e, srv := st.e, st.env.srv
	p, f, q := vSessionRules(0)
	// a range wider than the Exact strategy allows arrives over PFCP; a pair with
	// true ranges on both sides cannot (parseSDFFilter's documented workaround
	// keeps one port range per filter), so that one is handed to the plug-in directly
	bad := "permit out ip from 10.1.0.0/16 1000-2000 to assigned"
	when := vChoose("when", 4) // 0 establishment, 1 modification creating a PDR, 2 modification updating a PDR, 3 plug-in call with both sides ranges
	if when == 0 {
		p[1].sdf = bad
	}
	e.vSend(vEstablishment(2, 0xc0, "cp.test", p, f, q))
	r, ok := e.vLastReply().(*message.SessionEstablishmentResponse)
	vAssert("answered", ok)
	if when == 0 {
		vAssert("establishment-with-unrepresentable-range-refused", vCauseOf(r.Cause) != ie.CauseRequestAccepted)
		vCover("refused")
		vAssert("refused-session-leaves-nothing", srv.total() == 0)
		return
	}
	vAssume(vCauseOf(r.Cause) == ie.CauseRequestAccepted)
	fs, _ := r.UPFSEID.FSEID()
	if when == 3 {
		sess, found := e.pc.store.GetSession(fs.SEID)
		vAssert("session-stored", found)
		all := sess.PacketForwardingRules
		np := all.pdrs[1]
		np.pdrID = 3
		np.appFilter.srcPortRange, np.appFilter.dstPortRange = portRange{10, 20}, portRange{80, 85}
		all.pdrs = append(all.pdrs, np)
		method := upfMsgTypeAdd
		if vBool("as_modification") {
			method = upfMsgTypeMod
		}
		n0 := len(srv.cmds)
		cause := st.env.b.SendMsgToUPF(method, all, PacketForwardingRules{pdrs: []pdr{np}})
		vAssert("both-sides-ranges-refused-by-the-plug-in", cause != ie.CauseRequestAccepted)
		vAssert("refused-call-writes-nothing", len(srv.cmds) == n0)
		vCover("refused-modification")
		return
	}
	var ies []*ie.IE
	if when == 1 {
		np := vPDRSpec{uplink: false, id: 3, prec: 50, ue: [4]byte{10, 250, 0, 5}, farID: 12, qerIDs: p[1].qerIDs, sdf: bad}
		ies = append(ies, np.create())
	} else {
		up := p[1]
		up.sdf = bad
		ies = append(ies, up.update())
	}
	n0 := len(srv.cmds)
	e.vSend(message.NewSessionModificationRequest(0, 0, fs.SEID, 3, 0, ies...))
	m, ok := e.vLastReply().(*message.SessionModificationResponse)
	vAssert("modification-answered", ok)
	vAssert("modification-with-unrepresentable-range-refused", vCauseOf(m.Cause) != ie.CauseRequestAccepted)
	vAssert("refused-modification-writes-nothing", len(srv.cmds) == n0)
	vCheckBessImage(e.pc.store.GetAllSessions(), srv, "after-refused-modification")
	vCover("refused-modification")
}

func vReversed(a []uint32) []uint32 {
	out := make([]uint32, len(a))
	for i, x := range a {
		out[len(a)-1-i] = x
	}
	return out
}
