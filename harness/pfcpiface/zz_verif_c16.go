//go:build verif

package pfcpiface

import (
	"net"

	p4ConfigV1 "github.com/p4lang/p4runtime/go/p4/config/v1"
	p4 "github.com/p4lang/p4runtime/go/p4/v1"
)

// C16 — every P4Runtime write is valid for the shipped pipeline.

// vFits: the big-endian byte string b denotes a value < 2^w.
func vFits(b []byte, w int) bool {
	excess := 8*len(b) - w
	ok := true
	for i := 0; i < len(b) && excess > 0; i++ {
		if excess >= 8 {
			ok = vAnd(ok, b[i] == 0)
			excess -= 8
		} else {
			ok = vAnd(ok, b[i]>>uint(8-excess) == 0)
			excess = 0
		}
	}
	return ok
}

// vBit returns bit number pos (0 = most significant of a w-bit value) of the
// big-endian byte string b read as a w-bit value.
func vBitOf(b []byte, w, pos int) bool {
	// align: the value occupies the low w bits of b
	total := 8 * len(b)
	abs := total - w + pos
	if abs < 0 || abs >= total {
		return false
	}
	return b[abs/8]&(0x80>>uint(abs%8)) != 0
}

func vAllZero(b []byte) bool {
	z := true
	for _, c := range b {
		z = vAnd(z, c == 0)
	}
	return z
}

func vLE(a, b []byte) bool { // a <= b for equal-length big-endian byte strings
	if len(a) != len(b) {
		return false
	}
	// lexicographic comparison, branch-free
	lt, eq := false, true
	for i := range a {
		lt = vOr(lt, vAnd(eq, a[i] < b[i]))
		eq = vAnd(eq, a[i] == b[i])
	}
	return vOr(lt, eq)
}

type vVerdict struct {
	ok  bool
	why string
}

func vFail(why string) vVerdict { return vVerdict{false, why} }

func vFindTable(info *p4ConfigV1.P4Info, id uint32) *p4ConfigV1.Table {
	for _, t := range info.Tables {
		if t.Preamble.Id == id {
			return t
		}
	}
	return nil
}

func vFindAction(info *p4ConfigV1.P4Info, id uint32) *p4ConfigV1.Action {
	for _, a := range info.Actions {
		if a.Preamble.Id == id {
			return a
		}
	}
	return nil
}

// Validation verdicts are accumulated per rule label over all updates of a
// path and asserted once at the end (one solver query per label instead of
// one per update and label).
var vAccLabels []string
var vAccConds map[string]bool

func vAccReset() { vAccLabels, vAccConds = nil, map[string]bool{} }

func vAcc(label string, c bool) {
	old, ok := vAccConds[label]
	if !ok {
		vAccLabels = append(vAccLabels, label)
		old = true
	}
	vAccConds[label] = vAnd(old, c)
}

func vAccAssert() {
	for _, l := range vAccLabels {
		vAssert(l, vAccConds[l])
	}
}

// vValidate checks one update against the P4Info following the P4Runtime
// rules; each rule has its own assertion label.
func vValidate(info *p4ConfigV1.P4Info, u *p4.Update, tag string) {
	if u == nil || u.Entity == nil {
		return
	}
	switch e := u.Entity.Entity.(type) {
	case *p4.Entity_TableEntry:
		vValidateTableEntry(info, e.TableEntry, u.Type, tag)
	case *p4.Entity_MeterEntry:
		me := e.MeterEntry
		var m *p4ConfigV1.Meter
		for _, x := range info.Meters {
			if x.Preamble.Id == me.MeterId {
				m = x
			}
		}
		vAssert(tag+":meter-exists", m != nil)
		vAssert(tag+":meter-index-present", me.Index != nil)
		vAcc(tag+":meter-index-inside-array", vAnd(me.Index.Index >= 0, me.Index.Index < m.Size))
		if me.Config != nil {
			vAcc(tag+":meter-rates-non-negative", vAnd(vAnd(me.Config.Cir >= 0, me.Config.Pir >= 0), vAnd(me.Config.Cburst >= 0, me.Config.Pburst >= 0)))
		}
	case *p4.Entity_CounterEntry:
		ce := e.CounterEntry
		var c *p4ConfigV1.Counter
		for _, x := range info.Counters {
			if x.Preamble.Id == ce.CounterId {
				c = x
			}
		}
		vAssert(tag+":counter-exists", c != nil)
		vAssert(tag+":counter-index-present", ce.Index != nil)
		vAcc(tag+":counter-index-inside-array", vAnd(ce.Index.Index >= 0, ce.Index.Index < c.Size))
	default:
		vAcc(tag+":known-entity-kind", false)
	}
}

func vValidateTableEntry(info *p4ConfigV1.P4Info, te *p4.TableEntry, typ p4.Update_Type, tag string) {
	t := vFindTable(info, te.TableId)
	vAssert(tag+":table-exists", t != nil)
	seen := map[uint32]bool{}
	for _, m := range te.Match {
		var mf *p4ConfigV1.MatchField
		for _, x := range t.MatchFields {
			if x.Id == m.FieldId {
				mf = x
			}
		}
		vAssert(tag+":match-field-belongs-to-table", mf != nil)
		vAcc(tag+":match-field-not-repeated", !seen[m.FieldId])
		seen[m.FieldId] = true
		w := int(mf.Bitwidth)
		switch x := m.FieldMatchType.(type) {
		case *p4.FieldMatch_Exact_:
			vAcc(tag+":match-kind-as-declared(exact)", mf.GetMatchType() == p4ConfigV1.MatchField_EXACT)
			vAcc(tag+":exact-value-fits-bitwidth", vFits(x.Exact.Value, w))
		case *p4.FieldMatch_Lpm:
			vAcc(tag+":match-kind-as-declared(lpm)", mf.GetMatchType() == p4ConfigV1.MatchField_LPM)
			vAcc(tag+":lpm-value-fits-bitwidth", vFits(x.Lpm.Value, w))
			pl := int(x.Lpm.PrefixLen)
			vAcc(tag+":lpm-prefix-length-in-range(0<len<=width)", vAnd(pl > 0, pl <= w))
			clean := true
			for pos := 0; pos < w; pos++ {
				clean = vAnd(clean, vImplies(pos >= pl, !vBitOf(x.Lpm.Value, w, pos)))
			}
			vAcc(tag+":lpm-bits-beyond-prefix-are-zero", clean)
		case *p4.FieldMatch_Ternary_:
			vAcc(tag+":match-kind-as-declared(ternary)", mf.GetMatchType() == p4ConfigV1.MatchField_TERNARY)
			vAcc(tag+":ternary-value-and-mask-fit-bitwidth", vAnd(vFits(x.Ternary.Value, w), vFits(x.Ternary.Mask, w)))
			vAcc(tag+":ternary-mask-non-zero", !vAllZero(x.Ternary.Mask))
			vAcc(tag+":ternary-same-length", len(x.Ternary.Value) == len(x.Ternary.Mask))
			masked := true
			for i := range x.Ternary.Value {
				masked = vAnd(masked, x.Ternary.Value[i]&^x.Ternary.Mask[i] == 0)
			}
			vAcc(tag+":ternary-value-has-no-bit-outside-mask", masked)
		case *p4.FieldMatch_Range_:
			vAcc(tag+":match-kind-as-declared(range)", mf.GetMatchType() == p4ConfigV1.MatchField_RANGE)
			vAcc(tag+":range-bounds-fit-bitwidth", vAnd(vFits(x.Range.Low, w), vFits(x.Range.High, w)))
			vAcc(tag+":range-low<=high", vLE(x.Range.Low, x.Range.High))
		default:
			vAcc(tag+":known-match-kind", false)
		}
	}
	// exact fields are mandatory
	for _, mf := range t.MatchFields {
		if mf.GetMatchType() == p4ConfigV1.MatchField_EXACT {
			vAcc(tag+":exact-match-field-present", seen[mf.Id])
		}
	}
	needsPrio := vNeedsPriority(t)
	if needsPrio {
		vAcc(tag+":priority-non-zero-for-ternary/range-table", te.Priority > 0)
	} else {
		vAcc(tag+":priority-zero-for-exact/lpm-table", te.Priority == 0)
	}
	if typ == p4.Update_DELETE {
		return
	}
	vAssert(tag+":has-action", te.Action != nil && te.Action.GetAction() != nil)
	act := te.Action.GetAction()
	allowed := false
	for _, r := range t.ActionRefs {
		if r.Id == act.ActionId && r.Scope != p4ConfigV1.ActionRef_DEFAULT_ONLY {
			allowed = true
		}
	}
	vAcc(tag+":action-allowed-for-table", allowed)
	a := vFindAction(info, act.ActionId)
	vAssert(tag+":action-exists", a != nil)
	vAcc(tag+":action-has-exactly-its-declared-parameters(count)", len(act.Params) == len(a.Params))
	pseen := map[uint32]bool{}
	for _, p := range act.Params {
		var ap *p4ConfigV1.Action_Param
		for _, x := range a.Params {
			if x.Id == p.ParamId {
				ap = x
			}
		}
		vAssert(tag+":action-parameter-declared", ap != nil)
		vAcc(tag+":action-parameter-not-repeated", !pseen[p.ParamId])
		pseen[p.ParamId] = true
		vAcc(tag+":action-parameter-fits-bitwidth", vFits(p.Value, int(ap.Bitwidth)))
	}
}

func vPrefixMask(plen uint8) uint32 {
	// plen in 0..32
	return uint32(uint64(0xffffffff00000000) >> plen)
}

// vC16Mode selects which part of the session is symbolic:
// 1 = the uplink PDR and its FAR, 2 = the downlink PDR and its FAR, 3 = both.
var vC16Mode = 3

// vSymbolicSessionRules: an uplink and a downlink PDR, two FARs and up to two
// QERs with every field the translator reads symbolic (inside the envelope
// the handlers guarantee: ports not inverted, masks are prefixes, QFI 6 bits,
// 40-bit non-zero rates; zero rates are H_C16_meter's job).
func vSymbolicSessionRules(seid uint64, mode int) PacketForwardingRules {
	ue := vU32("ue")
	symFilter := func(tag string) applicationFilter {
		if vC16Lean != 0 {
			// three filter shapes with concrete values (arbitrary values: H_C16_builders)
			switch vChoose(tag+"_filter", 3) {
			case 0:
				return applicationFilter{}
			case 1:
				return applicationFilter{srcIP: 0x0a010000, srcIPMask: 0xffff0000, dstIP: 0x0a010000, dstIPMask: 0xffff0000,
					srcPortRange: portRange{80, 90}, dstPortRange: portRange{80, 90}, proto: 6, protoMask: 0xff}
			default:
				return applicationFilter{srcIP: 0x08080808, srcIPMask: 0xffffffff, dstIP: 0x08080808, dstIPMask: 0xffffffff,
					srcPortRange: portRange{53, 53}, dstPortRange: portRange{53, 53}, proto: 17, protoMask: 0xff}
			}
		}
		var f applicationFilter
		plen := vU8(tag + "_plen")
		vAssume(plen <= 32)
		m := vPrefixMask(plen)
		ip := vU32(tag+"_ip") & m
		lo, hi := vU16(tag+"_port_lo"), vU16(tag+"_port_hi")
		vAssume(lo <= hi)
		f.proto, f.protoMask = vU8(tag+"_proto"), vIteU8(vBool(tag+"_has_proto"), 0xff, 0)
		f.srcIP, f.srcIPMask, f.srcPortRange = ip, m, portRange{lo, hi}
		f.dstIP, f.dstIPMask, f.dstPortRange = ip, m, portRange{lo, hi}
		return f
	}
	concFilter := func() applicationFilter {
		return applicationFilter{srcIP: 0x0a010000, srcIPMask: 0xffff0000, dstIP: 0x0a010000, dstIPMask: 0xffff0000,
			srcPortRange: portRange{80, 90}, dstPortRange: portRange{80, 90}, proto: 6, protoMask: 0xff}
	}
	upF, dnF := concFilter(), concFilter()
	precU, precD := uint32(100), uint32(100)
	actU, actD := uint8(ActionForward), uint8(ActionForward)
	teid, gnb, gnbTEID := uint32(0x1234), uint32(0xc6120009), uint32(0x5678)
	if mode&1 != 0 {
		upF, precU, actU, teid = symFilter("ul"), vU32("prec_ul"), vU8("act_ul"), vU32("teid")
	}
	if mode&2 != 0 {
		dnF, precD, actD, gnb, gnbTEID = symFilter("dl"), vU32("prec_dl"), vU8("act_dl"), vU32("gnb"), vU32("gnb_teid")
	}
	upF.srcIP, upF.srcIPMask, upF.srcPortRange = ue, 0xffffffff, newWildcardPortRange()
	dnF.dstIP, dnF.dstIPMask, dnF.dstPortRange = ue, 0xffffffff, newWildcardPortRange()
	q1, q2 := vU32("qer_app"), vU32("qer_sess")
	vAssume(q1 != q2)
	nq := vChoose("qers_per_pdr", 3)
	ql := []uint32{q1, q2}[:nq]
	up := pdr{srcIface: access, srcIfaceMask: 0xff, tunnelIP4Dst: 0xc6120001, tunnelIP4DstMask: 0xffffffff, tunnelTEID: teid, tunnelTEIDMask: 0xffffffff,
		ueAddress: ue, appFilter: upF, precedence: precU, pdrID: 1, fseID: seid, farID: 1, qerIDList: append([]uint32{}, ql...), needDecap: 1}
	dn := pdr{srcIface: core, srcIfaceMask: 0xff, ueAddress: ue, appFilter: dnF, precedence: precD, pdrID: 2, fseID: seid, farID: 2, qerIDList: append([]uint32{}, ql...)}
	fu := far{farID: 1, fseID: seid, applyAction: actU, dstIntf: 1 /* core */}
	fd := far{farID: 2, fseID: seid, applyAction: actD, dstIntf: 0 /* access */, tunnelType: 1, tunnelIP4Src: 0xc6120001,
		tunnelIP4Dst: gnb, tunnelTEID: gnbTEID, tunnelPort: tunnelGTPUPort}
	rate := func(n string) uint64 {
		if vC16Lean != 0 {
			return 1000000 // rates -> meter configuration is H_C16_meter's subject
		}
		r := vU64(n) & 0xffffffffff
		vAssume(r != 0)
		return r
	}
	mkQ := func(id uint32, lvl QosLevel, tag string) qer {
		if vC16Lean != 0 {
			return qer{qerID: id, qosLevel: lvl, qfi: []uint8{5, 9}[vChoose(tag+"_qfi", 2)], ulStatus: vU8(tag+"_ulgate") & 1, dlStatus: vU8(tag+"_dlgate") & 1,
				ulMbr: rate(""), dlMbr: rate(""), ulGbr: 0, dlGbr: 500000, fseID: seid}
		}
		return qer{qerID: id, qosLevel: lvl, qfi: vU8(tag+"_qfi") & 0x3f, ulStatus: vU8(tag+"_ulgate") & 1, dlStatus: vU8(tag+"_dlgate") & 1,
			ulMbr: rate(tag + "_ulmbr"), dlMbr: rate(tag + "_dlmbr"), ulGbr: vU64(tag+"_ulgbr") & 0xffffffffff, dlGbr: vU64(tag+"_dlgbr") & 0xffffffffff, fseID: seid}
	}
	// the symbolic PDR also carries an arbitrary 16-bit rule id (distinct from the other PDR's)
	if mode&1 != 0 {
		up.pdrID = uint32(vU16("pdr_id_ul"))
		vAssume(up.pdrID != 0 && up.pdrID != dn.pdrID)
	}
	if mode&2 != 0 {
		dn.pdrID = uint32(vU16("pdr_id_dl"))
		vAssume(dn.pdrID != 0 && dn.pdrID != up.pdrID)
	}
	var r PacketForwardingRules
	r.pdrs = []pdr{up, dn}
	r.fars = []far{fu, fd}
	if nq >= 1 {
		r.qers = append(r.qers, mkQ(q1, ApplicationQos, "qa"))
	}
	if nq >= 2 {
		r.qers = append(r.qers, mkQ(q2, SessionQos, "qs"))
	}
	return r
}

// H_C16_session: everything the plug-in writes for the creation and the
// deletion of one session with arbitrary rule values.
func H_C16_session() {
	slice := vU8("slice_id")
	vAssume(slice <= 15)
	tc := vU8("default_tc")
	vAssume(tc <= 3)
	var qmap map[uint8]uint8
	if vC16Lean != 0 {
		qmap = map[uint8]uint8{5: uint8(vChoose("map_tc", 4))}
	} else {
		mapQFI, mapTC := vU8("map_qfi")&0x3f, vU8("map_tc")
		vAssume(mapTC <= 3)
		qmap = map[uint8]uint8{mapQFI: mapTC}
	}
	env := vNewUP4(8, slice, tc, qmap)
	env.srv.logOnly = true
	rules := vSymbolicSessionRules(0x1111, vC16Mode)
	vAccReset()
	err := env.up4.sendCreate(rules, rules)
	vObserve("create", err != nil, len(env.srv.log))
	for _, u := range env.srv.log {
		vValidate(env.srv.info, u, "create")
	}
	vAccAssert()
	if err != nil {
		vCover("create-refused")
		return
	}
	vCover("create-ok")
	if vC16Mode == 1 && vBool("then_update") {
		// a modification (uplink harness only): the symbolic PDR gets another precedence
		// and a filter the agent has not seen; everything sendUpdate writes must be valid
		// too (or the update refused)
		k := 0
		if vC16Mode == 2 {
			k = 1
		}
		upd := PacketForwardingRules{pdrs: []pdr{rules.pdrs[k]}, fars: []far{rules.fars[k]}}
		upd.pdrs[0].precedence = vU32("prec_upd")
		upd.pdrs[0].appFilter.proto, upd.pdrs[0].appFilter.protoMask = 132, 0xff // a filter the agent has not seen
		all := rules
		all.pdrs = append([]pdr{}, rules.pdrs...)
		all.fars = append([]far{}, rules.fars...)
		all.pdrs[k], all.fars[k] = upd.pdrs[0], upd.fars[0]
		nU := len(env.srv.log)
		vAccReset()
		uerr := env.up4.sendUpdate(all, upd)
		for _, u := range env.srv.log[nU:] {
			vValidate(env.srv.info, u, "update")
		}
		vAccAssert()
		if uerr == nil {
			vCover("update-ok")
			rules = all
		} else {
			vCover("update-refused")
			return
		}
	}
	n0 := len(env.srv.log)
	vAccReset()
	err = env.up4.sendDelete(rules)
	for _, u := range env.srv.log[n0:] {
		vValidate(env.srv.info, u, "delete")
	}
	vAccAssert()
	// what went back into the identifier pools is valid for the next session
	for k := range env.up4.counters {
		for _, x := range env.up4.counters[k].counterIDsPool.ToSlice() {
			id, isID := x.(uint64)
			vAssert("after-delete:counter-pool-inside-array", isID && id < 8)
		}
	}
	vCover("deleted")
}

// vC16Lean: rates and the QFI mapping concrete (their encodings are the subject
// of H_C16_meter and H_C16_builders); what stays symbolic end to end is what
// flows from the PDR/FAR/QER through sendCreate into the table entries.
var vC16Lean = 1

// H_C16_uplink / H_C16_downlink: as H_C16_session with one direction symbolic.
func H_C16_uplink() {
	vC16Mode = 1
	H_C16_session()
}

func H_C16_downlink() {
	vC16Mode = 2
	H_C16_session()
}

// H_C16_meter: meter configuration from arbitrary rates (zero included).
func H_C16_meter() {
	env := vNewUP4(8, 0, 0, nil)
	env.srv.logOnly = true
	mbr, gbr := vU64("mbr")&0xffffffffff, vU64("gbr")&0xffffffffff
	cfg := getMeterConfigurationFromQER(mbr, gbr)
	cell := uint32(1 + vChoose("cell", 7))
	which := []uint32{p4ConfigV1MeterApp(env.srv.info), p4ConfigV1MeterSess(env.srv.info)}[vChoose("meter", 2)]
	me := env.up4.p4RtTranslator.BuildMeterEntry(which, cell, cfg)
	vAccReset()
	vValidate(env.srv.info, &p4.Update{Type: p4.Update_MODIFY, Entity: &p4.Entity{Entity: &p4.Entity_MeterEntry{MeterEntry: me}}}, "meter")
	vAccAssert()
	vAssert("peak-rate-is-mbr-x-125", uint64(cfg.Pir) == mbr*125)
	vAssert("committed-rate-zero", cfg.Cir == 0 && cfg.Cburst == 0)
	vAssert("zero-rate-means-zero-config", vImplies(mbr == 0, vAnd(cfg.Pir == 0, cfg.Pburst <= 1)))
	vObserve("meter", cfg.Pir, cfg.Cir)
	vCover("meter")
}

func p4ConfigV1MeterApp(info *p4ConfigV1.P4Info) uint32 {
	for _, m := range info.Meters {
		if m.Preamble.Name == "PreQosPipe.app_meter" {
			return m.Preamble.Id
		}
	}
	return 0
}

func p4ConfigV1MeterSess(info *p4ConfigV1.P4Info) uint32 {
	for _, m := range info.Meters {
		if m.Preamble.Name == "PreQosPipe.session_meter" {
			return m.Preamble.Id
		}
	}
	return 0
}

// H_C16_static: interfaces table, slice meter, tunnel peers, index helper.
func H_C16_static() {
	slice := vU8("slice_id")
	vAssume(slice <= 15)
	tc := vU8("default_tc")
	vAssume(tc <= 3)
	env := vNewUP4(8, slice, tc, nil)
	vAssert("init-interfaces-ok", env.up4.initInterfaces() == nil)
	si := &SliceInfo{uplinkMbr: vU64("ul") & (1<<62 - 1), downlinkMbr: vU64("dl") & (1<<62 - 1), ulBurstBytes: vU64("ulb") & (1<<62 - 1), dlBurstBytes: vU64("dlb") & (1<<62 - 1)}
	vAssert("slice-meter-ok", env.up4.AddSliceInfo(si) == nil)
	vAccReset()
	for _, u := range env.srv.log {
		vValidate(env.srv.info, u, "static")
	}
	vAccAssert()
	idx, err := GetSliceTCMeterIndex(vU8("any_slice"), vU8("any_tc"))
	vAssert("slice-tc-index-inside-array-or-error", vOr(err != nil, vAnd(idx >= 0, idx < 64)))
	vCover("static")
}

// H_C16_pools: the identifier pools the plug-in builds at start-up
// (initMetersPools, initAllCounters, initTunnelPeerIDs, initApplicationIDs)
// only hold values that are valid for the pipeline: meter and counter cell
// indices inside the arrays the P4Info declares, tunnel-peer and application
// ids inside the bit width of the fields that carry them and never the
// reserved values. The membership question is asked for an arbitrary probe.
func H_C16_pools() {
	cells := int64(4 + 2*vChoose("cells", 3)) // declared size of the meter / counter arrays: 4, 6, 8
	env := vNewUP4(cells, 0, 0, nil)
	u := env.up4
	x := vU32("probe")
	vAssert("app-meter-pool-inside-array", vImplies(u.appMeterCellIDsPool.Contains(x), uint64(x) < uint64(cells)))
	vAssert("session-meter-pool-inside-array", vImplies(u.sessMeterCellIDsPool.Contains(x), uint64(x) < uint64(cells)))
	vAssert("meter-pools-not-larger-than-array", u.appMeterCellIDsPool.Cardinality() <= int(cells) && u.sessMeterCellIDsPool.Cardinality() <= int(cells))
	y := vU64("probe64")
	for k := range u.counters {
		vAssert("counter-pool-inside-array", vImplies(u.counters[k].counterIDsPool.Contains(y), y < uint64(cells)))
		vAssert("counter-pool-not-larger-than-array", u.counters[k].counterIDsPool.Cardinality() <= int(cells))
	}
	// tunnel_peer_id and app_id are 8-bit fields; 0 is reserved for both, 1 is the dbuf peer
	seenT := map[uint8]bool{}
	for _, id := range u.tunnelPeerIDsPool {
		vAssert("tunnel-peer-id-not-reserved", id >= 2)
		vAssert("tunnel-peer-id-unique-in-pool", !seenT[id])
		seenT[id] = true
	}
	seenA := map[uint8]bool{}
	for _, id := range u.applicationIDsPool {
		vAssert("application-id-not-reserved", id >= 1)
		vAssert("application-id-unique-in-pool", !seenA[id])
		seenA[id] = true
	}
	vObserve("pools", u.appMeterCellIDsPool.Cardinality(), u.sessMeterCellIDsPool.Cardinality(), len(u.tunnelPeerIDsPool), len(u.applicationIDsPool))
	vCover("pools")
}

// H_C16_builders: every entry builder of the translator on arbitrary
// arguments (the values reaching them in the plug-in are a subset).
func H_C16_builders() {
	env := vNewUP4(8, 0, 0, nil)
	t := env.up4.p4RtTranslator
	info := env.srv.info
	slice := vU8("slice_id")
	vAssume(slice <= 15)
	ue := vU32("ue")
	mkFilter := func() applicationFilter {
		var f applicationFilter
		plen := vU8("plen")
		vAssume(plen <= 32)
		m := vPrefixMask(plen)
		ip := vU32("ip") & m
		lo, hi := vU16("port_lo"), vU16("port_hi")
		vAssume(lo <= hi)
		f.proto, f.protoMask = vU8("proto"), vIteU8(vBool("has_proto"), 0xff, 0)
		f.srcIP, f.srcIPMask, f.srcPortRange = ip, m, portRange{lo, hi}
		f.dstIP, f.dstIPMask, f.dstPortRange = ip, m, portRange{lo, hi}
		return f
	}
	iface := uint8(access)
	if vBool("downlink") {
		iface = core
	}
	cell := func(n string) uint32 { c := vU32(n); vAssume(c < 8); return c }
	var e *p4.TableEntry
	var err error
	typ := p4.Update_INSERT
	switch vChoose("builder", 5) {
	case 0:
		vTag("applications")
		prec := vU32("precedence")
		p0 := pdr{precedence: prec}
		if verifyPDR(p0) != nil {
			// refused before any builder runs (every caller goes through verifyPDR first)
			vCover("precedence-refused")
			vAssert("only-out-of-range-precedence-refused", prec >= 65535)
			return
		}
		appID := vU8("app_id")
		vAssume(appID >= 1) // the pool holds 1..254
		p := pdr{srcIface: iface, ueAddress: ue, appFilter: mkFilter(), precedence: prec, pdrID: 1, fseID: 7}
		e, err = t.BuildApplicationsTableEntry(p, slice, appID)
	case 1:
		vTag("sessions")
		p := pdr{srcIface: iface, ueAddress: ue, tunnelIP4Dst: vU32("n3"), tunnelTEID: vU32("teid"), pdrID: 1, fseID: 7}
		m := meter{meterTypeSession, cell("sess_ul_cell"), cell("sess_dl_cell")}
		e, err = t.BuildSessionsTableEntry(p, m, vU8("tunnel_peer_id"), vBool("buffer"))
	case 2:
		vTag("terminations")
		ctr := vU32("ctr")
		vAssume(ctr < 8)
		p := pdr{srcIface: iface, ueAddress: ue, ctrID: ctr, pdrID: 1, fseID: 7}
		m := meter{meterTypeApplication, cell("app_ul_cell"), cell("app_dl_cell")}
		f := far{applyAction: vU8("apply_action"), tunnelTEID: vU32("far_teid")}
		q := qer{qfi: vU8("qer_qfi") & 0x3f, ulStatus: vU8("ul_gate") & 1, dlStatus: vU8("dl_gate") & 1}
		tc := vU8("tc")
		vAssume(tc <= 3)
		e, err = t.BuildTerminationsTableEntry(p, m, f, vU8("app_id"), vU8("qfi")&0x3f, tc, q)
	case 3:
		vTag("tunnel-peers")
		e, err = t.BuildGTPTunnelPeerTableEntry(vU8("tunnel_peer_id"), tunnelParams{vU32("src"), vU32("dst"), vU16("port")})
	case 4:
		vTag("interfaces")
		plen := 1 + vChoose("iface_plen", 32)
		m := vPrefixMask(uint8(plen))
		ip := vU32("iface_ip") & m
		n := &net.IPNet{IP: net.IP{byte(ip >> 24), byte(ip >> 16), byte(ip >> 8), byte(ip)}, Mask: net.IPMask{byte(m >> 24), byte(m >> 16), byte(m >> 8), byte(m)}}
		e, err = t.BuildInterfaceTableEntry(n, slice, vBool("is_core"))
	}
	vAssert("builder-succeeds", err == nil)
	vAccReset()
	vValidateTableEntry(info, e, typ, "entry")
	vAccAssert()
	vCover("built")
}
