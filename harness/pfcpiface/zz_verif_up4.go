//go:build verif

package pfcpiface

import (
	"google.golang.org/grpc/metadata"
	"context"
	"errors"
	"fmt"
	"net"
	"sort"
	"sync"

	set "github.com/deckarep/golang-set"
	p4ConfigV1 "github.com/p4lang/p4runtime/go/p4/config/v1"
	p4 "github.com/p4lang/p4runtime/go/p4/v1"
	"google.golang.org/grpc"
	"google.golang.org/grpc/codes"
	"google.golang.org/grpc/connectivity"
	"google.golang.org/grpc/credentials/insecure"
	"google.golang.org/grpc/status"
)

// An in-harness P4Runtime target: the real UP4 plug-in, the real translator
// and the real P4rtClient run on top of it.

type vP4Err struct{ codes []int32 }

// vJunkDetail: a per-update detail of a failed Write that is not a p4.v1.Error.
const vJunkDetail int32 = -1

// vLastStatus: under the engine grpc's status package is modelled at its three
// entry points convertError uses (FromError, Code, Details) so that the REAL
// convertError runs; the status handed out last stands for the error it came from.
var vLastStatus *vP4Err

func vInstallStatusModel() {
	vOverride("google.golang.org/grpc/status.FromError", func(err error) (*status.Status, bool) {
		if pe, ok := err.(*vP4Err); ok {
			vLastStatus = pe
			return new(status.Status), true
		}
		vLastStatus = nil
		return nil, false
	})
	vOverride("(*google.golang.org/grpc/internal/status.Status).Code", func(s *status.Status) codes.Code {
		return codes.Unknown
	})
	vOverride("(*google.golang.org/grpc/internal/status.Status).Details", func(s *status.Status) []any {
		var out []any
		if vLastStatus != nil {
			for _, c := range vLastStatus.codes {
				if c == vJunkDetail {
					out = append(out, &p4.Uint128{High: 1, Low: 2})
				} else {
					out = append(out, &p4.Error{CanonicalCode: c})
				}
			}
		}
		return out
	})
}

func (e *vP4Err) Error() string { return "p4 error" }

// vMakeP4Err builds the error a P4Runtime server returns for a Write whose
// updates end with the given canonical codes (gRPC status UNKNOWN + details).
func vMakeP4Err(cs []int32) error {
	if vInEngine() {
		return &vP4Err{cs}
	}
	st := status.New(codes.Unknown, "write failed")
	for _, c := range cs {
		if c == vJunkDetail {
			// a detail that is not a p4.v1.Error (it cannot be unpacked as one)
			st, _ = st.WithDetails(&p4.Uint128{High: 1, Low: 2})
			continue
		}
		st, _ = st.WithDetails(&p4.Error{CanonicalCode: c})
	}
	return st.Err()
}

func vTransportErr() error {
	if vInEngine() {
		return errors.New("transport failure")
	}
	return status.Error(codes.Unavailable, "transport failure")
}

type vP4Server struct {
	mu       sync.Mutex // concurrent associations write concurrently
	info     *p4ConfigV1.P4Info
	tables   map[uint32]map[string]*p4.TableEntry
	order    map[uint32][]string
	meters   map[[2]int64]*p4.MeterConfig // (meter id, index) -> config; absent or nil = default
	counters map[[2]int64]int             // (counter id, index) -> number of resets
	writes   int
	reads    int
	log      []*p4.Update // every update that reached the server
	accepted []*p4.Update // every update the server applied

	// fault plan: the failAt-th and failAt2-th Write calls fail (0 = never)
	failAt, failAt2 int
	failCode        int32 // 0: transport error; otherwise P4Runtime error with this canonical code on every update
	failedWrites    int
	logOnly         bool // record updates, keep no table image (rule values are symbolic: keys cannot be rendered)
}

func vNewP4Server(info *p4ConfigV1.P4Info) *vP4Server {
	return &vP4Server{info: info, tables: map[uint32]map[string]*p4.TableEntry{}, order: map[uint32][]string{},
		meters: map[[2]int64]*p4.MeterConfig{}, counters: map[[2]int64]int{}}
}

func (s *vP4Server) table(id uint32) *p4ConfigV1.Table {
	for _, t := range s.info.Tables {
		if t.Preamble.Id == id {
			return t
		}
	}
	return nil
}

func vHex(b []byte) string {
	const d = "0123456789abcdef"
	out := make([]byte, 0, 2*len(b))
	for _, c := range b {
		out = append(out, d[c>>4], d[c&15])
	}
	return string(out)
}

// vEntryKey: table entries are identified by their match fields (and priority
// where the table has ternary/range fields).
func (s *vP4Server) vEntryKey(e *p4.TableEntry) string {
	ms := append([]*p4.FieldMatch{}, e.Match...)
	sort.Slice(ms, func(a, b int) bool { return ms[a].FieldId < ms[b].FieldId })
	k := ""
	for _, m := range ms {
		switch x := m.FieldMatchType.(type) {
		case *p4.FieldMatch_Exact_:
			k += fmt.Sprintf("%d=e%s;", m.FieldId, vHex(x.Exact.Value))
		case *p4.FieldMatch_Lpm:
			k += fmt.Sprintf("%d=l%s/%d;", m.FieldId, vHex(x.Lpm.Value), x.Lpm.PrefixLen)
		case *p4.FieldMatch_Ternary_:
			k += fmt.Sprintf("%d=t%s&%s;", m.FieldId, vHex(x.Ternary.Value), vHex(x.Ternary.Mask))
		case *p4.FieldMatch_Range_:
			k += fmt.Sprintf("%d=r%s-%s;", m.FieldId, vHex(x.Range.Low), vHex(x.Range.High))
		default:
			k += fmt.Sprintf("%d=?;", m.FieldId)
		}
	}
	if t := s.table(e.TableId); t != nil && vNeedsPriority(t) {
		k += fmt.Sprintf("p%d", e.Priority)
	}
	return k
}

func vNeedsPriority(t *p4ConfigV1.Table) bool {
	for _, m := range t.MatchFields {
		switch m.GetMatchType() {
		case p4ConfigV1.MatchField_TERNARY, p4ConfigV1.MatchField_RANGE, p4ConfigV1.MatchField_OPTIONAL:
			return true
		}
	}
	return false
}

func (s *vP4Server) Write(ctx context.Context, in *p4.WriteRequest, opts ...grpc.CallOption) (*p4.WriteResponse, error) {
	s.mu.Lock()
	defer s.mu.Unlock()
	s.writes++
	s.log = append(s.log, in.Updates...)
	if s.writes == s.failAt || s.writes == s.failAt2 {
		s.failedWrites++
		if s.failCode == 0 {
			return nil, vTransportErr()
		}
		cs := make([]int32, len(in.Updates))
		for k := range cs {
			cs[k] = s.failCode
		}
		if len(cs) == 0 {
			cs = []int32{s.failCode}
		}
		if s.failCode == int32(codes.AlreadyExists) {
			// ALREADY_EXISTS means what it says: identical entries are present
			// (left by an earlier write); the state after the call contains them
			for _, u := range in.Updates {
				if u != nil && u.Entity != nil && s.apply(u) == 0 {
					s.accepted = append(s.accepted, u)
				}
			}
		}
		return nil, vMakeP4Err(cs)
	}
	if s.logOnly {
		s.accepted = append(s.accepted, in.Updates...)
		return &p4.WriteResponse{}, nil
	}
	cs := make([]int32, len(in.Updates))
	bad := false
	for k, u := range in.Updates {
		if u == nil || u.Entity == nil {
			continue // P4rtClient.ClearTable sends nil updates at the front of its batch
		}
		c := s.apply(u)
		cs[k] = c
		if c != 0 {
			bad = true
		} else {
			s.accepted = append(s.accepted, u)
		}
	}
	if bad {
		return nil, vMakeP4Err(cs)
	}
	return &p4.WriteResponse{}, nil
}

func (s *vP4Server) apply(u *p4.Update) int32 {
	switch e := u.Entity.Entity.(type) {
	case *p4.Entity_TableEntry:
		te := e.TableEntry
		t := s.tables[te.TableId]
		if t == nil {
			t = map[string]*p4.TableEntry{}
			s.tables[te.TableId] = t
		}
		k := s.vEntryKey(te)
		_, have := t[k]
		switch u.Type {
		case p4.Update_INSERT:
			if have {
				return int32(codes.AlreadyExists)
			}
			t[k] = te
			s.order[te.TableId] = append(s.order[te.TableId], k)
		case p4.Update_MODIFY:
			if !have {
				return int32(codes.NotFound)
			}
			t[k] = te
		case p4.Update_DELETE:
			if !have {
				return int32(codes.NotFound)
			}
			delete(t, k)
		default:
			return int32(codes.InvalidArgument)
		}
	case *p4.Entity_MeterEntry:
		me := e.MeterEntry
		if u.Type != p4.Update_MODIFY {
			return int32(codes.InvalidArgument)
		}
		idx := int64(-1)
		if me.Index != nil {
			idx = me.Index.Index
		}
		s.meters[[2]int64{int64(me.MeterId), idx}] = me.Config
	case *p4.Entity_CounterEntry:
		ce := e.CounterEntry
		idx := int64(-1)
		if ce.Index != nil {
			idx = ce.Index.Index
		}
		s.counters[[2]int64{int64(ce.CounterId), idx}]++
	default:
		return int32(codes.Unimplemented)
	}
	return 0
}

type vReadClient struct {
	grpc.ClientStream
	resp *p4.ReadResponse
}

func (r *vReadClient) Recv() (*p4.ReadResponse, error) { return r.resp, nil }

func (s *vP4Server) Read(ctx context.Context, in *p4.ReadRequest, opts ...grpc.CallOption) (p4.P4Runtime_ReadClient, error) {
	s.mu.Lock()
	defer s.mu.Unlock()
	s.reads++
	resp := &p4.ReadResponse{}
	for _, ent := range in.Entities {
		if te, ok := ent.Entity.(*p4.Entity_TableEntry); ok {
			t := s.tables[te.TableEntry.TableId]
			keys := make([]string, 0, len(t))
			for k := range t {
				keys = append(keys, k)
			}
			sort.Strings(keys)
			for _, k := range keys {
				resp.Entities = append(resp.Entities, &p4.Entity{Entity: &p4.Entity_TableEntry{TableEntry: t[k]}})
			}
		}
	}
	return &vReadClient{resp: resp}, nil
}

func (s *vP4Server) SetForwardingPipelineConfig(ctx context.Context, in *p4.SetForwardingPipelineConfigRequest, opts ...grpc.CallOption) (*p4.SetForwardingPipelineConfigResponse, error) {
	return &p4.SetForwardingPipelineConfigResponse{}, nil
}
func (s *vP4Server) GetForwardingPipelineConfig(ctx context.Context, in *p4.GetForwardingPipelineConfigRequest, opts ...grpc.CallOption) (*p4.GetForwardingPipelineConfigResponse, error) {
	return &p4.GetForwardingPipelineConfigResponse{Config: &p4.ForwardingPipelineConfig{P4Info: s.info}}, nil
}
func (s *vP4Server) StreamChannel(ctx context.Context, opts ...grpc.CallOption) (p4.P4Runtime_StreamChannelClient, error) {
	return nil, errors.New("no stream in the harness")
}
func (s *vP4Server) Capabilities(ctx context.Context, in *p4.CapabilitiesRequest, opts ...grpc.CallOption) (*p4.CapabilitiesResponse, error) {
	return &p4.CapabilitiesResponse{}, nil
}

func (s *vP4Server) entries(tableID uint32) int { return len(s.tables[tableID]) }

func (s *vP4Server) totalEntries() int {
	n := 0
	for _, t := range s.tables {
		n += len(t)
	}
	return n
}

// ---------------------------------------------------------------------------
// A ready *grpc.ClientConn for the native replay: IsConnected() needs
// conn.GetState() == Ready. The P4Runtime calls themselves go to vP4Server.

var vReadyConn *grpc.ClientConn

func vNativeReadyConn() *grpc.ClientConn {
	if vReadyConn != nil {
		return vReadyConn
	}
	lis, err := net.Listen("tcp", "127.0.0.1:0")
	if err != nil {
		panic("harness: cannot listen on loopback: " + err.Error())
	}
	srv := grpc.NewServer()
	go func() { _ = srv.Serve(lis) }()
	conn, err := grpc.Dial(lis.Addr().String(), grpc.WithTransportCredentials(insecure.NewCredentials()), grpc.WithBlock())
	if err != nil {
		panic("harness: cannot dial loopback: " + err.Error())
	}
	vReadyConn = conn
	return conn
}

// vP4InfoSized returns the shipped P4Info with the meter and counter arrays
// the agent draws identifiers from shrunk to n cells (0: as shipped).
func vP4InfoSized(n int64) *p4ConfigV1.P4Info {
	info := vP4InfoShipped()
	if n == 0 {
		return info
	}
	for _, m := range info.Meters {
		if m.Preamble.Name == "PreQosPipe.app_meter" || m.Preamble.Name == "PreQosPipe.session_meter" {
			m.Size = n
		}
	}
	for _, c := range info.Counters {
		c.Size = n
	}
	return info
}

type vUP4Env struct {
	up4 *UP4
	srv *vP4Server
}

// vNewUP4 builds a connected UP4 plug-in directly (the state SetUpfInfo +
// tryConnect + initialize leave behind), on the in-harness target.
func vNewUP4(poolCells int64, sliceID, defaultTC uint8, qfiToTC map[uint8]uint8) *vUP4Env {
	info := vP4InfoSized(poolCells)
	srv := vNewP4Server(info)
	cl := &P4rtClient{client: srv, deviceID: 1, P4Info: info, stream: &vStream{}}
	if vInEngine() {
		vInstallBurstStub()
		vOverride("(*github.com/omec-project/upf-epc/pfcpiface.P4rtClient).CheckStatus", func(c *P4rtClient) connectivity.State { return connectivity.Ready })
		vInstallStatusModel() // the real convertError runs on a model of grpc status
	} else {
		cl.conn = vNativeReadyConn()
	}
	u := &UP4{
		conf:           P4rtcInfo{SliceID: sliceID, DefaultTC: defaultTC, QFIToTC: qfiToTC, AccessIP: "198.18.0.1/32"},
		host:           "harness:0",
		deviceID:       1,
		accessIP:       &net.IPNet{IP: net.IP{198, 18, 0, 1}, Mask: net.IPMask{255, 255, 255, 255}},
		ueIPPool:       &net.IPNet{IP: net.IP{10, 250, 0, 0}, Mask: net.IPMask{255, 255, 0, 0}},
		p4client:       cl,
		connected:      true,
		p4RtTranslator: newP4RtTranslator(info),
		meters:         make(map[meterID]meter),
		ueAddrToFSEID:  make(map[uint32]uint64),
		fseidToUEAddr:  make(map[uint64]uint32),
		counters:       make([]counter, 2),
	}
	vSkipGo("(*github.com/omec-project/upf-epc/pfcpiface.UP4).listenToDDNs")
	vSkipGo("(*github.com/omec-project/upf-epc/pfcpiface.UP4).endMarkerSendLoop")
	u.initTunnelPeerIDs()
	u.initApplicationIDs()
	u.initAllCounters()
	u.initMetersPools()
	return &vUP4Env{up4: u, srv: srv}
}

func vSetCard(s set.Set) int {
	if s == nil {
		return 0
	}
	return s.Cardinality()
}

// vInstallBurstStub replaces calcBurstSizeFromRate (float64 arithmetic, which
// the bit-vector engine does not model) by a sound over-approximation of its
// IEEE-754 result: with p = kbps*ms, the exact value is p/8 and the computed
// one differs from it by at most 1 + p*2^-50.
func vInstallBurstStub() {
	vOverride("github.com/omec-project/upf-epc/pfcpiface.calcBurstSizeFromRate", func(kbps uint64, ms uint64) uint64 {
		r := vU64("aux_burst") // engine-internal input (the native run computes the real value)
		if vBurstLoose != 0 {
			// harnesses that assert nothing about bursts: an arbitrary value (no
			// multiply/divide constraints in the path condition)
			return r
		}
		vAssume(kbps < 1<<41)
		vAssume(ms < 1<<16)
		p := kbps * ms
		slack := 1 + p>>50
		vAssume(r+slack >= p/8)
		vAssume(r <= p/8+slack)
		return r
	})
}

var vBurstLoose = 0

// vStream is the P4Runtime stream of the in-harness client: it records what is
// sent (packet-outs) and never delivers anything.
type vStream struct {
	mu   sync.Mutex
	sent [][]byte
}

func (s *vStream) Send(m *p4.StreamMessageRequest) error {
	s.mu.Lock()
	defer s.mu.Unlock()
	if pk := m.GetPacket(); pk != nil {
		s.sent = append(s.sent, pk.Payload)
	}
	return nil
}
func (s *vStream) nsent() int {
	s.mu.Lock()
	defer s.mu.Unlock()
	return len(s.sent)
}
func (s *vStream) Recv() (*p4.StreamMessageResponse, error) { select {} }
func (s *vStream) Header() (metadata.MD, error)              { return nil, nil }
func (s *vStream) Trailer() metadata.MD                      { return nil }
func (s *vStream) CloseSend() error                          { return nil }
func (s *vStream) Context() context.Context                  { return context.Background() }
func (s *vStream) SendMsg(m interface{}) error               { return nil }
func (s *vStream) RecvMsg(m interface{}) error               { select {} }
