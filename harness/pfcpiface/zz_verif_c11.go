//go:build verif

package pfcpiface

import (
	"context"
	"fmt"
	"math/rand"
	"net"
	"sync"
	"time"

	"github.com/prometheus/client_golang/prometheus"
	"github.com/wmnsk/go-pfcp/ie"
	"github.com/wmnsk/go-pfcp/message"
)

// C11 — concurrent associations do not interfere (narrowed to race freedom by
// lock discipline: one goroutine per association calls into the single
// datapath object with no global serialisation - conn.go - so every access to
// state shared between associations must happen under a common lock).

func vRulesOf(k int) PacketForwardingRules {
	seid := uint64(0x100 + k)
	ue := uint32(0x0afa0005 + k)
	f1 := applicationFilter{srcIP: ue, srcIPMask: 0xffffffff, dstIP: 0x0a010000, dstIPMask: 0xffff0000, dstPortRange: portRange{80, 90}, srcPortRange: newWildcardPortRange()}
	f2 := applicationFilter{dstIP: ue, dstIPMask: 0xffffffff, srcIP: 0x0a010000, srcIPMask: 0xffff0000, srcPortRange: portRange{80, 90}, dstPortRange: newWildcardPortRange()}
	up := pdr{srcIface: access, srcIfaceMask: 0xff, tunnelIP4Dst: 0xc6120001, tunnelIP4DstMask: 0xffffffff, tunnelTEID: uint32(0x1000 + k), tunnelTEIDMask: 0xffffffff,
		ueAddress: ue, appFilter: f1, precedence: 100, pdrID: 1, fseID: seid, farID: 1, qerIDList: []uint32{1, 4}, needDecap: 1}
	dn := pdr{srcIface: core, srcIfaceMask: 0xff, ueAddress: ue, appFilter: f2, precedence: 100, pdrID: 2, fseID: seid, farID: 2, qerIDList: []uint32{1, 4}}
	fu := far{farID: 1, fseID: seid, applyAction: ActionForward, dstIntf: ie.DstInterfaceCore}
	fd := far{farID: 2, fseID: seid, applyAction: ActionForward, dstIntf: ie.DstInterfaceAccess, tunnelType: 1, tunnelIP4Src: 0xc6120001, tunnelIP4Dst: 0xc6120009, tunnelTEID: uint32(0x5000 + k), tunnelPort: tunnelGTPUPort}
	qa := qer{qerID: 1, qosLevel: ApplicationQos, qfi: 9, ulMbr: 1000, dlMbr: 2000, fseID: seid}
	qs := qer{qerID: 4, qosLevel: SessionQos, ulMbr: 50000, dlMbr: 50000, fseID: seid}
	return PacketForwardingRules{pdrs: []pdr{up, dn}, fars: []far{fu, fd}, qers: []qer{qa, qs}}
}

// H_C11_up4locks: the objects the UP4 plug-in shares between associations and
// the lock each of them is (or would have to be) accessed under.
func H_C11_up4locks() {
	st := vNewUP4(16, 3, 3, nil)
	u := st.up4
	_ = u.initInterfaces()
	// objects with a designated lock in the code
	vGuarded(u.tunnelPeerIDs, &u.tunnelPeerMu, "UP4.tunnelPeerIDs")
	vGuarded(&u.tunnelPeerIDsPool, &u.tunnelPeerMu, "UP4.tunnelPeerIDsPool")
	vGuarded(u.applicationIDs, &u.applicationMu, "UP4.applicationIDs")
	vGuarded(&u.applicationIDsPool, &u.applicationMu, "UP4.applicationIDsPool")
	// state shared by all associations that the plug-in serializes with rulesMu
	vGuarded(u.meters, &u.rulesMu, "UP4.meters")
	vGuarded(u.ueAddrToFSEID, &u.rulesMu, "UP4.ueAddrToFSEID")
	vGuarded(u.fseidToUEAddr, &u.rulesMu, "UP4.fseidToUEAddr")
	r := vRulesOf(0)
	c := u.SendMsgToUPF(upfMsgTypeAdd, r, r)
	vAssert("created", c == ie.CauseRequestAccepted)
	r2 := vRulesOf(1)
	vAssert("second-created", u.SendMsgToUPF(upfMsgTypeAdd, r2, r2) == ie.CauseRequestAccepted)
	upd := r.fars[1]
	upd.tunnelIP4Dst = 0xc612000a
	r.fars[1] = upd
	vAssert("updated", u.SendMsgToUPF(upfMsgTypeMod, r, PacketForwardingRules{fars: []far{upd}}) == ie.CauseRequestAccepted)
	vAssert("deleted", u.SendMsgToUPF(upfMsgTypeDel, r, PacketForwardingRules{}) == ie.CauseRequestAccepted)
	vAssert("second-deleted", u.SendMsgToUPF(upfMsgTypeDel, r2, PacketForwardingRules{}) == ie.CauseRequestAccepted)
	vCover("locks")
}

// R_C11_up4: two associations program the one UP4 object concurrently.
func R_C11_up4() {
	st := vNewUP4(64, 3, 3, nil)
	u := st.up4
	_ = u.initInterfaces()
	var wg sync.WaitGroup
	for g := 0; g < 2; g++ {
		wg.Add(1)
		go func(g int) {
			defer wg.Done()
			for n := 0; n < 40; n++ {
				r := vRulesOf(g*100 + n%3)
				u.SendMsgToUPF(upfMsgTypeAdd, r, r)
				u.SendMsgToUPF(upfMsgTypeDel, r, PacketForwardingRules{})
			}
		}(g)
	}
	wg.Wait()
}

// H_C11_store: the session store and the node-level objects shared by the
// handlers of different associations: IPPool and FTEIDGenerator accesses hold
// their locks on every path of an establishment + deletion.
func H_C11_shared() {
	e := vNewEnv(true)
	e.pc.rng = nil
	e.pc.rng = vRng()
	e.dp.fixedCause = 1
	vGuarded(e.u.ippool.inventory, &e.u.ippool.mu, "IPPool.inventory")
	vGuarded(&e.u.ippool.freePool, &e.u.ippool.mu, "IPPool.freePool")
	vGuarded(e.u.fteidGenerator.usedMap, &e.u.fteidGenerator.lock, "FTEIDGenerator.usedMap")
	vGuarded(&e.u.fteidGenerator.offset, &e.u.fteidGenerator.lock, "FTEIDGenerator.offset")
	pdrs, fars, qers := vConcreteRules()
	pdrs[0].choose = true
	pdrs[0].ueChoose, pdrs[1].ueChoose = true, true
	e.vSend(vEstablishment(1, 0xc0, "cp.test", pdrs, fars, qers))
	r, ok := e.vLastReply().(*message.SessionEstablishmentResponse)
	vAssert("accepted", ok && vCauseOf(r.Cause) == ie.CauseRequestAccepted)
	fs, _ := r.UPFSEID.FSEID()
	switch vChoose("end", 3) {
	case 0:
		e.vSend(vDeletion(2, fs.SEID))
	case 1:
		e.pc.Shutdown()
	case 2:
		e.vSend(message.NewSessionReportResponse(0, 0, fs.SEID, 2, 0, ie.NewCause(ie.CauseSessionContextNotFound)))
	}
	vAssert("released", len(e.u.fteidGenerator.usedMap) == 0 && len(e.u.ippool.inventory) == 0)
	vCover("shared")
}

// R_C11_shared: two associations (two PFCPConn objects, one goroutine each, as
// conn.go runs them) sharing the node-level UE address pool and F-TEID
// generator, each running the scenario of H_C11_shared with every ending.
func R_C11_shared() {
	e1 := vNewEnv(true)
	e2 := vNewEnv(true)
	e2.u.ippool, e2.u.fteidGenerator = e1.u.ippool, e1.u.fteidGenerator
	var wg sync.WaitGroup
	for g, e := range []*vEnv{e1, e2} {
		wg.Add(1)
		go func(g int, e *vEnv) {
			defer wg.Done()
			e.dp.fixedCause = 1
			for n := 0; n < 30; n++ {
				pdrs, fars, qers := vConcreteRules()
				pdrs[0].choose = true
				pdrs[0].ueChoose, pdrs[1].ueChoose = true, true
				e.vSend(vEstablishment(uint32(3*n+1), uint64(0xc0+g), "cp.test", pdrs, fars, qers))
				r, ok := e.vLastReply().(*message.SessionEstablishmentResponse)
				if !ok || r.UPFSEID == nil {
					continue
				}
				fs, err := r.UPFSEID.FSEID()
				if err != nil {
					continue
				}
				switch n % 3 {
				case 0:
					e.vSend(vDeletion(uint32(3*n+2), fs.SEID))
				case 1:
					for _, s := range e.pc.store.GetAllSessions() {
						e.pc.RemoveSession(s)
					}
				case 2:
					e.vSend(message.NewSessionReportResponse(0, 0, fs.SEID, uint32(3*n+2), 0, ie.NewCause(ie.CauseSessionContextNotFound)))
				}
			}
		}(g, e)
	}
	wg.Wait()
}

// H_C11_bess: the BESS plug-in object is shared by all associations and has no
// lock: what it holds besides the gRPC client (the QCI -> burst configuration
// map) must stay read-only once the associations run. Create / modify / delete
// for a session whose QERs carry a configured and an unconfigured QFI.
func H_C11_bess() {
	env := vNewBess()
	vReadOnly(env.b.qciQosMap, "bess.qciQosMap")
	r := vRulesOf(0)
	r.qers[0].qfi = []uint8{9, 5, 67}[vChoose("qfi", 3)] // configured, configured without minimums, not configured
	vAssert("create-accepted", env.b.SendMsgToUPF(upfMsgTypeAdd, r, r) == ie.CauseRequestAccepted)
	if vBool("modify") {
		r.qers[0].ulMbr = 3000
		vAssert("modify-accepted", env.b.SendMsgToUPF(upfMsgTypeMod, r, PacketForwardingRules{qers: r.qers[:1]}) == ie.CauseRequestAccepted)
	}
	env.b.SendMsgToUPF(upfMsgTypeDel, r, PacketForwardingRules{})
	vCover("bess")
}

// R_C11_bess: two associations' goroutines driving the one BESS plug-in object.
func R_C11_bess() {
	env := vNewBess()
	var wg sync.WaitGroup
	for g := 0; g < 2; g++ {
		wg.Add(1)
		go func(g int) {
			defer wg.Done()
			for n := 0; n < 20; n++ {
				r := vRulesOf(g*100 + n%3)
				r.qers[0].qfi = uint8(60 + (g*20+n)%40)
				env.b.SendMsgToUPF(upfMsgTypeAdd, r, r)
				env.b.SendMsgToUPF(upfMsgTypeDel, r, PacketForwardingRules{})
			}
		}(g)
	}
	wg.Wait()
}

// vKeyedDP: a datapath shared by several associations whose downlink entries
// are keyed by what both real plug-ins key them by - the UE address (the owner
// is recorded as value). A delete removes whatever entry carries the key. Its
// mutex makes every call one critical section.
type vKeyedDP struct {
	mu       sync.Mutex
	downlink map[uint32]uint64 // UE address -> F-SEID that programmed it
}

func (d *vKeyedDP) Exit()                                 {}
func (d *vKeyedDP) SetUpfInfo(u *upf, conf *Conf)         {}
func (d *vKeyedDP) AddSliceInfo(s *SliceInfo) error       { return nil }
func (d *vKeyedDP) SendEndMarkers(l *[][]byte) error      { return nil }
func (d *vKeyedDP) IsConnected(accessIP *net.IP) bool     { return true }
func (d *vKeyedDP) SummaryLatencyJitter(uc *upfCollector, ch chan<- prometheus.Metric) {}
func (d *vKeyedDP) SummaryGtpuLatency(uc *upfCollector, ch chan<- prometheus.Metric)   {}
func (d *vKeyedDP) PortStats(uc *upfCollector, ch chan<- prometheus.Metric)            {}
func (d *vKeyedDP) SessionStats(pc *PfcpNodeCollector, ch chan<- prometheus.Metric) error {
	return nil
}
func (d *vKeyedDP) SendMsgToUPF(method upfMsgType, all PacketForwardingRules, updated PacketForwardingRules) uint8 {
	if vRacing && method == upfMsgTypeDel {
		// the native concurrent run: a datapath call is a remote procedure call;
		// give the delete the latency of one (widens the window another
		// association's request can fall into - the engine needs no such help)
		time.Sleep(2 * time.Millisecond)
	}
	d.mu.Lock()
	defer d.mu.Unlock()
	switch method {
	case upfMsgTypeAdd:
		for _, p := range all.pdrs {
			if p.srcIface == core {
				d.downlink[p.ueAddress] = p.fseID
			}
		}
	case upfMsgTypeDel:
		for _, p := range all.pdrs {
			if p.srcIface == core {
				delete(d.downlink, p.ueAddress)
			}
		}
	}
	return ie.CauseRequestAccepted
}

// vTwoAssociations: two PFCPConn objects of one node: shared UE pool (two
// addresses), shared F-TEID generator, shared keyed datapath; distinct SEID
// ranges.
func vTwoAssociations() (*vEnv, *vEnv, *vKeyedDP) {
	e1, e2 := vNewEnv(true), vNewEnv(true)
	dp := &vKeyedDP{downlink: map[uint32]uint64{}}
	pool, _ := NewIPPool("10.250.0.0/30")
	for k, e := range []*vEnv{e1, e2} {
		e.u.ippool, e.u.datapath, e.u.fteidGenerator = pool, dp, e1.u.fteidGenerator
		e.pc.rng = rand.New(&vRandSource{counter: true, n: 1000 * k})
		e.pc.maxRetries = 2
	}
	return e1, e2, dp
}

func vChooseEstablishment(seq uint32, cp uint64) message.Message {
	pdrs, fars, qers := vConcreteRules()
	pdrs[0].choose = true
	pdrs[0].ueChoose, pdrs[1].ueChoose = true, true
	return vEstablishment(seq, cp, "cp.test", pdrs, fars, qers)
}

// vUPSEID returns the UP F-SEID of an accepted establishment response (0 otherwise).
func vUPSEID(m message.Message) uint64 {
	r, ok := m.(*message.SessionEstablishmentResponse)
	if !ok || r.UPFSEID == nil || vCauseOf(r.Cause) != ie.CauseRequestAccepted {
		return 0
	}
	fs, err := r.UPFSEID.FSEID()
	if err != nil {
		return 0
	}
	return fs.SEID
}

// vOrderCheck: every session an association answered "accepted" and still
// holds owns the downlink entry of its UE address.
func vOrderCheck(dp *vKeyedDP, envs ...*vEnv) string {
	for _, e := range envs {
		for _, s := range e.pc.store.GetAllSessions() {
			for _, p := range s.pdrs {
				if p.srcIface == core {
					if owner, ok := dp.downlink[p.ueAddress]; !ok || owner != s.localSEID {
						return fmt.Sprintf("session %x: downlink entry for its UE address %x is owned by %x (present %v)", s.localSEID, p.ueAddress, owner, ok)
					}
				}
			}
		}
	}
	return ""
}

// H_C11_order: outcomes under interleaving. Association 1 holds session A with
// a UPF-chosen UE address; the pool has one address left or none. Association 1
// deletes A while association 2 establishes B (UPF-chosen address) - under every
// interleaving of their critical sections. Afterwards every accepted, live
// session owns its datapath entry and the pool is conserved: the result is one
// that serving the two requests one after the other could have produced.
func H_C11_order() {
	e1, e2, dp := vTwoAssociations()
	e1.vSend(vChooseEstablishment(1, 0xa1))
	a := vUPSEID(e1.vLastReply())
	vAssert("A-established", a != 0)
	if vBool("pool-exhausted") {
		// a third session takes the other address: B can only be served with A's
		e1.vSend(vChooseEstablishment(2, 0xa2))
		vAssert("C-established", vUPSEID(e1.vLastReply()) != 0)
	}
	vAssert("consistent-before", vOrderCheck(dp, e1, e2) == "")
	vPreemptAtLocks(4)
	vPreemptOn(&e1.u.ippool.mu)
	vPreemptOn(&e1.u.fteidGenerator.lock)
	vPreemptOn(&dp.mu)
	var wg sync.WaitGroup
	wg.Add(2)
	go func() {
		defer wg.Done()
		e1.vSend(vDeletion(3, a))
	}()
	go func() {
		defer wg.Done()
		e2.vSend(vChooseEstablishment(1, 0xb1))
	}()
	wg.Wait()
	vJoin()
	_, del := e1.vLastReply().(*message.SessionDeletionResponse)
	vAssert("deletion-answered", del)
	vAssert("every-accepted-live-session-owns-its-datapath-entry", vOrderCheck(dp, e1, e2) == "")
	held := len(e1.u.ippool.inventory)
	live := len(e1.pc.store.GetAllSessions()) + len(e2.pc.store.GetAllSessions())
	vAssert("addresses-held-equals-live-sessions", held == live)
	vAssert("pool-conserved", held+len(e1.u.ippool.freePool) == 2)
	vCover("order")
}

// R_C11_order: native counterpart of H_C11_order, many rounds.
func R_C11_order() {
	for round := 0; round < 400; round++ {
		e1, e2, dp := vTwoAssociations()
		e1.vSend(vChooseEstablishment(1, 0xa1))
		a := vUPSEID(e1.vLastReply())
		e1.vSend(vChooseEstablishment(2, 0xa2))
		var start, wg sync.WaitGroup
		start.Add(1)
		wg.Add(2)
		go func() {
			defer wg.Done()
			start.Wait()
			e1.vSend(vDeletion(3, a))
		}()
		go func() {
			defer wg.Done()
			start.Wait()
			for try := uint32(0); try < 50; try++ {
				e2.vSend(vChooseEstablishment(1+try, 0xb1))
				if vUPSEID(e2.vLastReply()) != 0 {
					return
				}
			}
		}()
		start.Done()
		wg.Wait()
		if msg := vOrderCheck(dp, e1, e2); msg != "" {
			vStressFail(fmt.Sprintf("round %d: %s", round, msg))
		}
	}
}

// H_C11_seeds: the real NewPFCPConn for two associations created one after the
// other: each association draws its SEIDs from its own stream - the generators
// are seeded differently whenever the two are created at different instants
// (and the clock never stands still between two reads). Under the engine the
// seed handed to rand.NewSource is observed; natively the first draws of the
// two generators are compared.
func H_C11_seeds() {
	e := vNewEnv(false)
	node := &PFCPNode{ctx: context.Background(), pConnDone: make(chan string, 4), upf: e.u, metrics: e.m}
	var seeds []int64
	if vInEngine() {
		vOverride("math/rand.NewSource", func(seed int64) rand.Source {
			seeds = append(seeds, seed)
			return &vRandSource{counter: true}
		})
		vOverride("github.com/libp2p/go-reuseport.Dial", func(network, laddr, raddr string) (net.Conn, error) {
			return vNewConn(), nil
		})
		vSkipGo("(*github.com/omec-project/upf-epc/pfcpiface.PFCPConn).Serve")
	}
	c1 := node.NewPFCPConn("127.0.0.1:0", "127.0.0.1:18805", nil)
	c2 := node.NewPFCPConn("127.0.0.1:0", "127.0.0.1:18806", nil)
	vAssert("two-associations-created", c1 != nil && c2 != nil && c1 != c2)
	if vInEngine() {
		vAssert("associations-draw-their-SEIDs-from-different-streams", len(seeds) == 2 && seeds[0] != seeds[1])
	} else {
		// natively the two creations may straddle a clock boundary that happens to
		// separate the seeds; a few more pairs created back to back settle it
		same := c1.rng.Uint64() == c2.rng.Uint64()
		c1.Close()
		c2.Close()
		for try := 0; try < 6 && !same; try++ {
			d1 := node.NewPFCPConn("127.0.0.1:0", "127.0.0.1:18805", nil)
			d2 := node.NewPFCPConn("127.0.0.1:0", "127.0.0.1:18806", nil)
			same = d1.rng.Uint64() == d2.rng.Uint64()
			d1.Close()
			d2.Close()
		}
		vAssert("associations-draw-their-SEIDs-from-different-streams", !same)
	}
	vCover("seeds")
}
