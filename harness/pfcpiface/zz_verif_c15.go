//go:build verif

package pfcpiface

import (
	"github.com/wmnsk/go-pfcp/ie"
	"github.com/wmnsk/go-pfcp/message"
	"google.golang.org/grpc/codes"
)

// C15 — P4 datapath IDs stay exclusive and in their own pool under write failures.

var vC15Cells = 6
var vC15MaxWrites = 14

// vCheckIDs: exclusivity of identifiers, judged from the entries the target
// accepted (live owners) and the agent's pools.
func vCheckIDs(st *vUP4Stack, tag string) {
	srv, u := st.env.srv, st.env.up4
	tu, td := srv.decode("terminations_uplink"), srv.decode("terminations_downlink")
	su, sd := srv.decode("sessions_uplink"), srv.decode("sessions_downlink")
	apps, peers := srv.decode("applications"), srv.decode("tunnel_peers")
	// counter cells: one owner per live terminations entry
	ctr := map[uint64]int{}
	for _, r := range append(append([]vRec{}, tu...), td...) {
		ctr[r.params["ctr_idx"]]++
	}
	for id, n := range ctr {
		vAssert(tag+":counter-cell-has-one-live-owner", n == 1)
		vAssert(tag+":counter-cell-in-use-is-not-in-the-free-pool", !u.counters[preQosCounterID].counterIDsPool.Contains(id))
	}
	// application ids / tunnel peer ids
	seenApp := map[uint64]bool{}
	for _, r := range apps {
		id := r.params["app_id"]
		vAssert(tag+":application-id-has-one-live-owner", !seenApp[id])
		seenApp[id] = true
		for _, free := range u.applicationIDsPool {
			vAssert(tag+":application-id-in-use-is-not-in-the-free-pool", uint64(free) != id)
		}
	}
	seenPeer := map[uint64]bool{}
	for _, r := range peers {
		id := r.match["tunnel_peer_id"]
		vAssert(tag+":tunnel-peer-id-has-one-live-owner", !seenPeer[id])
		seenPeer[id] = true
		for _, free := range u.tunnelPeerIDsPool {
			vAssert(tag+":tunnel-peer-id-in-use-is-not-in-the-free-pool", uint64(free) != id)
		}
	}
	// a tunnel-peer id a live downlink session entry forwards to is in use too -
	// whether or not its tunnel_peers entry is (still) there
	for _, r := range sd {
		id, ok := r.params["tunnel_peer_id"]
		if !ok || id == 0 {
			continue
		}
		for _, free := range u.tunnelPeerIDsPool {
			vAssert(tag+":tunnel-peer-id-a-live-session-forwards-to-is-not-in-the-free-pool", uint64(free) != id)
		}
	}
	// meter cells referenced by live entries
	appCells, sessCells := map[uint64]bool{}, map[uint64]bool{}
	for _, r := range append(append([]vRec{}, tu...), td...) {
		if c, ok := r.params["app_meter_idx"]; ok && c != 0 {
			appCells[c] = true
		}
	}
	for _, r := range append(append([]vRec{}, su...), sd...) {
		if c, ok := r.params["session_meter_idx"]; ok && c != 0 {
			sessCells[c] = true
		}
	}
	for c := range appCells {
		vAssert(tag+":app-meter-cell-in-use-is-not-in-the-free-pool", !u.appMeterCellIDsPool.Contains(uint32(c)))
	}
	for c := range sessCells {
		vAssert(tag+":session-meter-cell-in-use-is-not-in-the-free-pool", !u.sessMeterCellIDsPool.Contains(uint32(c)))
	}
	// no migration between pools: free + held (by the agent's own bookkeeping) = initial size
	heldApp, heldSess := 0, 0
	for _, m := range u.meters {
		n := 1
		if m.downlinkCellID != m.uplinkCellID {
			n = 2
		}
		if m.meterType == meterTypeApplication {
			heldApp += n
		} else {
			heldSess += n
		}
	}
	initial := vC15Cells - 1 // cells 1..n-1
	vAssert(tag+":app-meter-pool-keeps-its-cells(no-migration)", vSetCard(u.appMeterCellIDsPool)+heldApp == initial)
	vAssert(tag+":session-meter-pool-keeps-its-cells(no-migration)", vSetCard(u.sessMeterCellIDsPool)+heldSess == initial)
}

// H_C15_faults: a failing write at every position of an establishment, a
// modification and a deletion, followed by another session that would
// receive any wrongly recycled identifier.
func H_C15_faults() {
	st := vNewUP4Stack(int64(vC15Cells))
	e, srv := st.e, st.env.srv
	w0 := srv.writes
	srv.failAt = w0 + 1 + vChoose("fail_at", vC15MaxWrites+1) // position of the failing Write; past the end = no fault
	switch vChoose("fail_kind", 5) {
	case 0:
		srv.failCode = 0 // transport error
	case 1:
		srv.failCode = int32(codes.InvalidArgument)
	case 2:
		srv.failCode = int32(codes.AlreadyExists) // tolerated by modifyUP4ForwardingConfiguration for table writes
	case 3:
		srv.failCode = int32(codes.NotFound) // e.g. the switch lost the entry a MODIFY names; nothing is applied
	case 4:
		srv.failCode = vJunkDetail // UNKNOWN whose per-update details are not p4.v1.Error messages: still a failed write
	}
	tolerated := srv.failCode == int32(codes.AlreadyExists)
	p, f, q := vSessionRules(0)
	f0 := srv.failedWrites
	e.vSend(vEstablishment(2, 0xc0, "cp.test", p, f, q))
	r, ok := e.vLastReply().(*message.SessionEstablishmentResponse)
	vAssert("establishment-answered", ok)
	accepted := vCauseOf(r.Cause) == ie.CauseRequestAccepted
	failed := srv.failedWrites > f0
	vObserve("est", accepted, failed)
	if failed && !tolerated {
		vCover("establishment-with-failed-write")
		vAssert("establishment-with-a-failed-write-is-rejected", !accepted)
	}
	vCheckIDs(st, "after-establishment")
	var up uint64
	if accepted {
		fs, _ := r.UPFSEID.FSEID()
		up = fs.SEID
		if vBool("modify") {
			u := f[1]
			u.peer, u.teid = vGNBs[vChoose("new_gnb", len(vGNBs))], 0x7000
			f1 := srv.failedWrites
			e.vSend(message.NewSessionModificationRequest(0, 0, up, 3, 0, u.update()))
			m, ok := e.vLastReply().(*message.SessionModificationResponse)
			vAssert("modification-answered", ok)
			if srv.failedWrites > f1 && !tolerated {
				vCover("modification-with-failed-write")
				vAssert("modification-with-a-failed-write-is-rejected", vCauseOf(m.Cause) != ie.CauseRequestAccepted)
			}
			vCheckIDs(st, "after-modification")
		}
		if vBool("delete") {
			e.vSend(vDeletion(4, up))
			vCheckIDs(st, "after-deletion")
		}
	}
	// another session: it must not receive an identifier a live entry still carries
	srv.failAt = 0
	p2, f2, q2 := vSessionRules(1)
	e.vSend(vEstablishment(5, 0xc1, "cp.test", p2, f2, q2))
	vCheckIDs(st, "after-next-session")
	vCover("done")
}
