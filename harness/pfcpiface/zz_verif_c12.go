//go:build verif

package pfcpiface

import (
	"context"
	"time"

	"github.com/wmnsk/go-pfcp/ie"
	"github.com/wmnsk/go-pfcp/message"
	"google.golang.org/grpc"
	"google.golang.org/grpc/connectivity"
	"google.golang.org/grpc/credentials/insecure"
)

// C12 — association, heartbeat and retransmission contract (sequential logic).

var vC12Retries = 3

// vPlanConn is a fake socket that, natively, answers the k-th transmission of
// the pending request from another goroutine (k = answerAt; 0 = never).
type vPlanConn struct {
	*vConn
	pc       *PFCPConn
	answerAt int
	reply    message.Message
}

func (c *vPlanConn) Write(b []byte) (int, error) {
	n, err := c.vConn.Write(b)
	if c.answerAt != 0 && len(c.vConn.writes) == c.answerAt {
		go c.pc.handleIncomingResponse(c.reply)
	}
	return n, err
}

// H_C12_retransmit: sendPFCPRequestMessage under every loss pattern "the k-th
// transmission is answered" (k = 1..retries+1) or none.
func H_C12_retransmit() {
	e := vNewEnv(false)
	retries := vChoose("max_req_retries", vC12Retries+1)
	e.u.maxReqRetries = uint8(retries)
	e.u.respTimeout = 15 * time.Millisecond
	answerAt := vChoose("answer_at", retries+3) // 0: never; k: the k-th transmission (k may exceed what is ever sent)
	seq := vU32("seq") & 0xffffff
	e.pc.seqNum.seq = seq
	r := e.pc.getHeartBeatRequest()
	reply := message.NewHeartbeatResponse(r.msg.Sequence(), ie.NewRecoveryTimeStamp(vTS))
	pc := &vPlanConn{vConn: e.conn, pc: e.pc, answerAt: answerAt, reply: reply}
	e.pc.Conn = pc
	// The real Request.GetResponse (timer + two channels) and the real
	// handleIncomingResponse run under the engine: the peer is a goroutine that
	// answers the answerAt-th transmission; the response timer fires when no
	// goroutine can make progress otherwise.
	_, registeredBefore := e.pc.pendingReqs.Load(r.msg.Sequence())
	got, timedOut := e.pc.sendPFCPRequestMessage(r)
	n := len(e.conn.writes)
	vObserve("rtx", n, timedOut, got != nil)
	vAssert("not-registered-before-sending", !registeredBefore)
	vAssert("at-most-1+max_req_retries-transmissions", n <= 1+retries)
	vAssert("at-least-one-transmission", n >= 1)
	for k := 1; k < n; k++ {
		same := len(e.conn.writes[k]) == len(e.conn.writes[0])
		if same {
			for j := range e.conn.writes[k] {
				same = same && e.conn.writes[k][j] == e.conn.writes[0][j]
			}
		}
		vAssert("retransmissions-are-identical(same-sequence-number)", same)
	}
	m, _ := message.Parse(e.conn.writes[0])
	vAssert("sequence-number-is-the-fresh-one", m != nil && m.Sequence() == (seq+1)&0xffffff) // 24-bit field
	if answerAt >= 1 && answerAt <= 1+retries {
		vCover("answered")
		vAssert("stops-at-the-first-answer", n == answerAt)
		vAssert("answer-is-returned", got != nil && !timedOut)
	} else {
		vCover("never-answered")
		vAssert("declared-dead-only-after-all-transmissions", n == 1+retries)
		vAssert("reports-timeout", got == nil && timedOut)
	}
}

// H_C12_response: handleIncomingResponse delivers a response iff a request
// with that sequence number is pending, once.
func H_C12_response() {
	e := vNewEnv(false)
	pend := vU32("pending_seq") & 0xffffff
	rq := &Request{msg: message.NewHeartbeatRequest(pend, ie.NewRecoveryTimeStamp(vTS), nil), reply: make(chan message.Message, 2)}
	e.pc.pendingReqs.Store(pend, rq)
	seq := vU32("resp_seq") & 0xffffff
	resp := message.NewHeartbeatResponse(seq, ie.NewRecoveryTimeStamp(vTS))
	e.vSend(resp)
	vObserve("resp", len(rq.reply))
	vAssert("never-answers-a-response", len(e.conn.writes) == 0)
	if seq == pend {
		vCover("matching")
		vAssert("matching-response-delivered", len(rq.reply) == 1)
		_, still := e.pc.pendingReqs.Load(pend)
		vAssert("pending-entry-consumed", !still)
		// a duplicate is ignored
		e.vSend(resp)
		vAssert("duplicate-response-ignored", len(rq.reply) == 1)
	} else {
		vCover("wrong-sequence")
		vAssert("wrong-sequence-response-ignored", len(rq.reply) == 0)
		_, still := e.pc.pendingReqs.Load(pend)
		vAssert("pending-entry-kept", still)
	}
}

// H_C12_heartbeat: heartbeat requests are answered in any association state
// with the unchanged local recovery time stamp and postpone the agent's own
// heartbeat (one reset, never blocking).
func H_C12_heartbeat() {
	e := vNewEnv(false)
	e.u.enableHBTimer = vBool("hb_timer")
	if vBool("no_association") {
		e.pc.nodeID.remote = ""
	}
	fill := vChoose("hbreset_backlog", 3) // 0 empty, 1 one pending, 2 full
	e.pc.hbReset = make(chan struct{}, 2)
	for k := 0; k < fill; k++ {
		e.pc.hbReset <- struct{}{}
	}
	ts0 := e.pc.ts.local
	// some other message first: nothing may change the local time stamp
	switch vChoose("before", 3) {
	case 1:
		e.dp.connected = vBool("dp_connected")
		e.vSend(message.NewAssociationSetupRequest(9, ie.NewNodeID("", "", "cp.test"), ie.NewRecoveryTimeStamp(vTS.Add(time.Hour))))
	case 2:
		e.dp.fixedCause = 1
		pdrs, fars, qers := vConcreteRules()
		e.vSend(vEstablishment(9, 1, "cp.test", pdrs, fars, qers))
	}
	before := len(e.conn.writes)
	backlog := len(e.pc.hbReset)
	seq := vU32("seq") & 0xffffff
	e.vSend(message.NewHeartbeatRequest(seq, ie.NewRecoveryTimeStamp(vTS), nil))
	r := e.vExpectReply("hb", before, message.MsgTypeHeartbeatResponse, seq).(*message.HeartbeatResponse)
	got, err := r.RecoveryTimeStamp.RecoveryTimeStamp()
	vAssert("recovery-time-stamp-present", err == nil)
	vAssert("recovery-time-stamp-is-the-agents-and-unchanged", got.Unix() == ts0.Unix() && e.pc.ts.local.Equal(ts0))
	vObserve("hb", len(e.pc.hbReset))
	if e.u.enableHBTimer {
		vCover("timer-on")
		want := backlog + 1
		if want > 2 {
			want = 2 // channel full: the reset is dropped, the handler must not block
		}
		vAssert("postpones-own-heartbeat(one-reset,never-blocks)", len(e.pc.hbReset) == want)
	} else {
		vCover("timer-off")
		vAssert("no-reset-when-timer-disabled", len(e.pc.hbReset) == backlog)
	}
}

// H_C12_assoc: Association Setup is accepted exactly when the datapath is
// connected and always advertises the features matching the configuration.
func H_C12_assoc() {
	alloc, em := vBool("ueip_alloc"), vBool("end_marker")
	e := vNewEnv(alloc)
	e.u.enableEndMarker = em
	e.dp.connected = vBool("dp_connected")
	e.u.enableHBTimer = false
	seq := vU32("seq") & 0xffffff
	e.vSend(message.NewAssociationSetupRequest(seq, ie.NewNodeID("", "", "cp9.test"), ie.NewRecoveryTimeStamp(vTS)))
	r := e.vExpectReply("as", 0, message.MsgTypeAssociationSetupResponse, seq).(*message.AssociationSetupResponse)
	c := vCauseOf(r.Cause)
	vObserve("assoc", c)
	vAssert("accepted-iff-connected", (c == ie.CauseRequestAccepted) == e.dp.connected)
	vAssert("rejected-otherwise", e.dp.connected || c == ie.CauseRequestRejected)
	vAssert("features-present", r.UPFunctionFeatures != nil)
	f, err := r.UPFunctionFeatures.UPFunctionFeatures()
	vAssert("features-decode", err == nil && len(f) >= 3)
	sf := f
	vAssert("ftup-always", sf[0]&0x10 != 0)
	vAssert("ueip-iff-enabled", (sf[2]&0x04 != 0) == alloc)
	vAssert("empu-iff-enabled", (sf[1]&0x01 != 0) == em)
	vAssert("no-other-feature-bits", sf[0]&^0x10 == 0 && sf[1]&^0x01 == 0 && sf[2]&^0x04 == 0)
	ts, err := r.RecoveryTimeStamp.RecoveryTimeStamp()
	vAssert("carries-local-recovery-time-stamp", err == nil && ts.Unix() == vTS.Unix())
	nid, err := r.NodeID.NodeID()
	vAssert("carries-node-id", err == nil && nid == "upf.test")
	if c == ie.CauseRequestAccepted {
		vCover("accepted")
	} else {
		vCover("rejected")
		vAssert("rejected-association-not-recorded", e.pc.nodeID.remote == "cp.test")
	}
}

// H_C12_seq: consecutive agent-originated requests get consecutive sequence numbers.
func H_C12_seq() {
	e := vNewEnv(false)
	s0 := vU32("seq")
	e.pc.seqNum.seq = s0
	a := e.pc.getSeqNum()
	b := e.pc.getSeqNum()
	vObserve("seq", a, b)
	vAssert("increments", a == s0+1 && b == s0+2)
	vAssert("consecutive-requests-differ", a != b)
	vCover("seq")
}

// vCtx: a cancellable context for the engine (context.WithCancel is overridden
// to produce it; natively the real package runs).
type vCtx struct {
	done   chan struct{}
	closed bool
}

func (c *vCtx) Deadline() (time.Time, bool)       { return time.Time{}, false }
func (c *vCtx) Done() <-chan struct{}             { return c.done }
func (c *vCtx) Value(key interface{}) interface{} { return nil }
func (c *vCtx) Err() error {
	if c.closed {
		return context.Canceled
	}
	return nil
}

// H_C12_hbmonitor: the heartbeat monitor end to end under the engine's timer
// model: a peer heartbeat (one pending reset) re-arms the monitor's timer WITH
// THE HEARTBEAT INTERVAL; when the timer then expires the agent heartbeats,
// retransmits max_req_retries times without an answer, declares the peer dead
// and removes its sessions.
//
// Under the engine the durations are symbolic and the re-arming is observed at
// (*time.Ticker).Reset; natively they are 300 ms / 40 ms and it is observed on
// the clock: the first heartbeat must not leave before most of an interval has
// passed since the reset.
func H_C12_hbmonitor() {
	e := vNewEnv(false)
	hbRaw, rtRaw := vU64("heart_beat_interval_ns"), vU64("resp_timeout_ns")
	hb, rt := time.Duration(hbRaw&(1<<40-1))+1, time.Duration(rtRaw&(1<<40-1))+1
	vAssume(hb != rt)
	retries := vChoose("max_req_retries", 3)
	var resets []time.Duration
	if vInEngine() {
		vOverride("(*time.Ticker).Reset", func(t *time.Ticker, d time.Duration) { resets = append(resets, d) })
		vOverride("context.WithCancel", func(parent context.Context) (context.Context, context.CancelFunc) {
			c := &vCtx{done: make(chan struct{})}
			return c, func() {
				if !c.closed {
					c.closed = true
					close(c.done)
				}
			}
		})
	} else {
		vTimeHook = nil // this harness reads the real clock natively
		hb, rt = 300*time.Millisecond, 40*time.Millisecond
	}
	e.u.enableHBTimer, e.u.hbInterval, e.u.respTimeout, e.u.maxReqRetries = true, hb, rt, uint8(retries)
	e.dp.fixedCause = 1
	// a live session of this peer
	pdrs, fars, qers := vConcreteRules()
	e.vSend(vEstablishment(1, 0xa1, "cp.test", pdrs, fars, qers))
	vAssume(len(e.pc.store.GetAllSessions()) == 1)
	w0 := len(e.conn.writes)
	// the peer's heartbeat has just been handled: one reset is pending
	e.pc.hbReset <- struct{}{}
	t0 := time.Now()
	finished := make(chan struct{})
	var firstHB time.Duration
	go func() {
		e.pc.startHeartBeatMonitor()
		close(finished)
	}()
	if vInEngine() {
		vJoin()
	} else {
		for len(e.conn.writes) == w0 && time.Since(t0) < 3*time.Second {
			time.Sleep(time.Millisecond)
		}
		firstHB = time.Since(t0)
		select {
		case <-finished:
		case <-time.After(5 * time.Second):
		}
	}
	n := len(e.conn.writes) - w0
	vObserve("hbmon", n)
	if vInEngine() {
		vAssert("peer-heartbeat-re-arms-the-timer-with-the-heartbeat-interval", len(resets) == 1 && resets[0] == hb)
	} else {
		vAssert("peer-heartbeat-re-arms-the-timer-with-the-heartbeat-interval", firstHB >= hb*3/4)
	}
	vAssert("unanswered-heartbeat-is-sent-1+max_req_retries-times", n == 1+retries)
	for k := w0; k < len(e.conn.writes); k++ {
		m, err := message.Parse(e.conn.writes[k])
		vAssert("transmissions-are-heartbeat-requests", err == nil && m.MessageType() == message.MsgTypeHeartbeatRequest)
	}
	vAssert("peer-declared-dead:sessions-removed", len(e.pc.store.GetAllSessions()) == 0)
	vAssert("peer-declared-dead:association-reported-done", len(e.done) == 1)
	vCover("hbmonitor")
}

// vConnInState returns a gRPC channel in the given connectivity state. Under
// the engine GetState is overridden on a zero ClientConn; natively a real
// channel is brought into that state (CONNECTING and TRANSIENT_FAILURE are one
// channel to a closed loopback port that moves between the two).
var vConnState connectivity.State

func vConnInState(st connectivity.State) *grpc.ClientConn {
	if vInEngine() {
		vConnState = st
		vOverride("(*google.golang.org/grpc.ClientConn).GetState", func(c *grpc.ClientConn) connectivity.State { return vConnState })
		return new(grpc.ClientConn)
	}
	switch st {
	case connectivity.Ready:
		return vNativeReadyConn()
	case connectivity.Idle:
		c, _ := grpc.NewClient("127.0.0.1:1", grpc.WithTransportCredentials(insecure.NewCredentials()))
		return c // never asked to connect
	case connectivity.Shutdown:
		c, _ := grpc.NewClient("127.0.0.1:1", grpc.WithTransportCredentials(insecure.NewCredentials()))
		_ = c.Close()
		return c
	default:
		c, _ := grpc.NewClient("127.0.0.1:1", grpc.WithTransportCredentials(insecure.NewCredentials()))
		c.Connect() // nobody listens there
		return c
	}
}

// H_C12_gate: the connectivity gate of BOTH real plug-ins behind the real
// Association Setup handler: the association is accepted only while the
// datapath's gRPC channel is READY (not while it is idle, still connecting,
// failing or shut down; for UP4 also not before the pipeline was initialised).
func H_C12_gate() {
	st := []connectivity.State{connectivity.Idle, connectivity.Connecting, connectivity.Ready, connectivity.TransientFailure, connectivity.Shutdown}[vChoose("channel_state", 5)]
	conn := vConnInState(st)
	e := vNewEnv(false)
	e.u.enableHBTimer = false
	want := st == connectivity.Ready
	if vBool("p4") {
		flag := vBool("up4_initialised")
		e.u.datapath = &UP4{connected: flag, p4client: &P4rtClient{conn: conn}}
		want = want && flag
		vTag("up4")
	} else {
		e.u.datapath = &bess{conn: conn}
		vTag("bess")
	}
	vTag(st.String())
	seq := vU32("seq") & 0xffffff
	e.vSend(message.NewAssociationSetupRequest(seq, ie.NewNodeID("", "", "cp9.test"), ie.NewRecoveryTimeStamp(vTS)))
	r := e.vExpectReply("as", 0, message.MsgTypeAssociationSetupResponse, seq).(*message.AssociationSetupResponse)
	c := vCauseOf(r.Cause)
	vObserve("gate", c)
	vAssert("gate:association-accepted-only-while-the-datapath-channel-is-ready", (c == ie.CauseRequestAccepted) == want)
	vAssert("gate:refused-association-is-not-recorded", want || e.pc.nodeID.remote == "cp.test")
	if want {
		vCover("gate-open")
	} else {
		vCover("gate-closed")
	}
}

// H_C12_interrupted: a request of the agent (heartbeat) is unanswered when the
// association ends: the wait is abandoned - it is not reported as a time-out and
// nothing is retransmitted on the ended association.
func H_C12_interrupted() {
	e := vNewEnv(false)
	retries := vChoose("max_req_retries", 4)
	e.u.maxReqRetries, e.u.respTimeout = uint8(retries), 2*time.Second
	r := e.pc.getHeartBeatRequest()
	w0 := len(e.conn.writes)
	close(e.pc.shutdown) // the association has ended (release, time-out, stop)
	reply, timeout := e.pc.sendPFCPRequestMessage(r)
	vObserve("interrupted", timeout, len(e.conn.writes)-w0)
	vAssert("interrupted:not-reported-as-a-time-out", !timeout && reply == nil)
	vAssert("interrupted:nothing-retransmitted-on-the-ended-association", len(e.conn.writes) == w0+1)
	vCover("interrupted")
}
