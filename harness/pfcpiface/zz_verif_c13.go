//go:build verif

package pfcpiface

import (
	"fmt"
	"net"
	"sync"
	"sync/atomic"
	"time"

	"github.com/wmnsk/go-pfcp/ie"
	"github.com/wmnsk/go-pfcp/message"
)

// C13 — downlink data notifications reach the control plane.

// H_C13_digest: handleDigestReport on a store holding an arbitrary session.
func H_C13_digest() {
	e := vNewEnv(false)
	seid := vU64("seid")
	vAssume(seid != 0)
	rseid := vU64("remote_seid")
	s := PFCPSession{localSEID: seid, remoteSEID: rseid}
	np := 1 + vChoose("npdr", 2)
	for k := 0; k < np; k++ {
		p := pdr{pdrID: uint32(vU16("pdr_id")), farID: vU32("far_id"), fseID: seid, srcIface: access}
		if vBool("downlink") {
			p.srcIface = core
		}
		s.pdrs = append(s.pdrs, p)
	}
	nf := vChoose("nfar", 3)
	for k := 0; k < nf; k++ {
		f := far{farID: vU32("far"), applyAction: vU8("apply_action"), fseID: seid}
		for _, o := range s.fars {
			vAssume(o.farID != f.farID)
		}
		s.fars = append(s.fars, f)
	}
	_ = e.pc.store.PutSession(s)
	if vBool("cp_fseid_changed_by_a_modification") {
		// the control plane moves the session to another CP F-SEID: reports must be
		// addressed with the SEID that is current when they are sent
		newCP := vU64("remote_seid_2")
		e.dp.fixedCause = 1
		nw := len(e.conn.writes)
		e.vSend(message.NewSessionModificationRequest(0, 0, seid, 7, 0, vCPFSEID(newCP)))
		m, okm := e.vLastReply().(*message.SessionModificationResponse)
		vAssume(len(e.conn.writes) == nw+1 && okm && vCauseOf(m.Cause) == ie.CauseRequestAccepted)
		rseid = newCP
		vCover("cp-fseid-changed")
	}
	if nf >= 1 && vBool("refused_modification_before_the_report") {
		// the control plane tries to switch a FAR to plain forwarding (no NOCP), the
		// datapath refuses: the rules - and with them whether reports are due - stay
		e.dp.fixedCause = 64 // ie.CauseRequestRejected
		u := vFARSpec{id: s.fars[0].farID, action: ActionForward, uplink: false, teid: 0x99, peer: [4]byte{198, 18, 0, 9}}
		e.vSend(message.NewSessionModificationRequest(0, 0, seid, 8, 0, u.update()))
		m, okm := e.vLastReply().(*message.SessionModificationResponse)
		vAssert("refused-modification-is-answered-rejected", okm && vCauseOf(m.Cause) != ie.CauseRequestAccepted)
		vCover("refused-modification")
	}
	e.pc.seqNum.seq = vU32("prev_seq") & 0xffffff
	prevSeq := e.pc.seqNum.seq

	report := vU64("report_fseid")
	before := len(e.conn.writes)
	e.pc.handleDigestReport(report)
	sent := len(e.conn.writes) - before
	vObserve("digest", sent)
	vAssert("at-most-one-message", sent <= 1)
	if report != seid {
		vCover("unknown-session")
		vAssert("unknown-session:nothing-sent", sent == 0)
		return
	}
	// reference: the session's downlink rule = its first PDR whose source is the core side
	var dl *pdr
	for k := range s.pdrs {
		if s.pdrs[k].srcIface == core {
			dl = &s.pdrs[k]
			break
		}
	}
	if dl == nil {
		vCover("no-downlink-pdr")
		vAssert("no-downlink-pdr:nothing-sent", sent == 0)
		return
	}
	var df *far
	for k := range s.fars {
		if s.fars[k].farID == dl.farID {
			df = &s.fars[k]
		}
	}
	asks := df != nil && df.applyAction&ActionNotify != 0
	if !asks {
		vCover("rule-does-not-ask")
		if df == nil {
			vTag("downlink-far-missing")
		}
		vAssert("rule-does-not-ask-for-notification:nothing-sent", sent == 0)
		return
	}
	if dl.pdrID == 0 {
		// PDR id 0 is not a valid rule id (3GPP: 1..65535); the code treats it as "none"
		vCover("pdr-id-zero")
		return
	}
	vCover("notified")
	vAssert("notified:one-session-report-request", sent == 1)
	m, ok := e.vLastReply().(*message.SessionReportRequest)
	vAssert("notified:is-session-report-request", ok)
	vAssert("notified:addressed-with-cp-seid", m.SEID() == rseid)
	vAssert("notified:fresh-sequence-number", m.Sequence() != prevSeq)
	vAssert("notified:has-downlink-data-report", m.DownlinkDataReport != nil && m.ReportType != nil)
	id, err := m.DownlinkDataReport.PDRID()
	vAssert("notified:names-the-downlink-pdr", err == nil && uint32(id) == dl.pdrID)
	// a second report gets another fresh sequence number
	e.pc.handleDigestReport(report)
	m2, ok2 := e.vLastReply().(*message.SessionReportRequest)
	vAssert("second:sent", ok2 && len(e.conn.writes) == before+2)
	vAssert("second:sequence-differs", m2.Sequence() != m.Sequence())
}

var vC13Reports = 3

// H_C13_notify: the rate limiter (NewDownlinkDataNotifier / Notify / shouldNotify)
// under a symbolic clock: vC13Reports datapath reports with arbitrary F-SEIDs at
// arbitrary (strictly increasing) instants, arbitrary positive interval.
// Each report k is bracketed by two clock reads of the harness, before_k and
// after_k; the limiter's own reads fall between them.
func H_C13_notify() {
	// the report channel holds ONE event; a consumer (node.Serve in the agent)
	// drains it. The limiter's send blocks while the channel is full.
	ch := make(chan uint64, 1)
	var got []uint64
	var mu sync.Mutex
	done := make(chan struct{})
	tick := make(chan struct{})
	take := func(f uint64) {
		mu.Lock()
		got = append(got, f)
		mu.Unlock()
	}
	// The consumer is SLOW: it takes an event only while the producer is blocked
	// on the full channel. Under the engine that is the baton scheduler's one
	// schedule (the consumer runs when the main goroutine cannot); natively the
	// same schedule is enforced by ticks: notify() runs Notify in a helper
	// goroutine and, if it has not returned after a grace period, lets the
	// consumer take exactly one event.
	if vInEngine() {
		go func() {
			for f := range ch {
				take(f)
			}
			close(done)
		}()
	} else {
		go func() {
			for range tick {
				f, ok := <-ch
				if !ok {
					break
				}
				take(f)
			}
			for f := range ch {
				take(f)
			}
			close(done)
		}()
	}
	delivered := func() int {
		mu.Lock()
		defer mu.Unlock()
		return len(got) + len(ch)
	}
	iv := time.Duration(vU64("interval_ns") & (1<<40 - 1))
	vAssume(iv > 0)
	n := NewDownlinkDataNotifier(ch, iv)

	type rep struct {
		fseid         uint64
		before, after time.Time
		fwd           bool
	}
	var hist []rep
	for k := 0; k < vC13Reports; k++ {
		f := vU64("fseid")
		r := rep{fseid: f, before: time.Now()}
		q := delivered()
		if vInEngine() {
			n.Notify(f)
		} else {
			ret := make(chan struct{})
			go func() { n.Notify(f); close(ret) }()
			for waiting := true; waiting; {
				select {
				case <-ret:
					waiting = false
				case <-time.After(20 * time.Millisecond):
					tick <- struct{}{} // the producer is blocked: the consumer takes one event
				}
			}
		}
		r.after = time.Now()
		q2 := delivered()
		r.fwd = q2 == q+1
		vAssert("at-most-one-event-per-report", q2 == q || q2 == q+1)
		vObserve("fwd", r.fwd)
		// the last forwarded predecessor of the same session
		prev := -1
		for j := range hist {
			if hist[j].fseid == f && hist[j].fwd {
				prev = j
			}
		}
		seen := false
		for j := range hist {
			if hist[j].fseid == f {
				seen = true
			}
		}
		if !seen {
			vCover("first-report")
			vAssert("first-report-never-suppressed", r.fwd)
		} else if r.fwd {
			vCover("forwarded-again")
			vAssert("seen-implies-forwarded-predecessor", prev >= 0)
			// at most one per interval: even the most lenient reading of the two
			// event instants puts them at least one interval apart
			vAssert("two-forwarded-at-least-one-interval-apart", r.after.Sub(hist[prev].before) >= iv)
		} else {
			vCover("suppressed")
			vAssert("seen-implies-forwarded-predecessor", prev >= 0)
			// a report is only suppressed because of a notification less than one
			// interval earlier
			vAssert("suppressed-only-within-interval", r.before.Sub(hist[prev].after) < iv)
		}
		hist = append(hist, r)
	}
	close(ch)
	if vInEngine() {
		vJoin()
	} else {
		close(tick)
		<-done
	}
	// what reached the consumer is exactly the forwarded reports, in order
	k := 0
	for _, r := range hist {
		if r.fwd {
			vAssert("forwarded-event-carries-the-fseid", k < len(got) && got[k] == r.fseid)
			k++
		}
	}
	vAssert("nothing-else-delivered", k == len(got))
}

// vReportSock: the BESS notification socket - each Read returns one scripted
// 8-byte little-endian F-SEID; afterwards Read fails (the socket is gone).
type vReportSock struct {
	vConn
	reports []uint64
	pos     int
}

func (c *vReportSock) Read(b []byte) (int, error) {
	if c.pos >= len(c.reports) {
		return 0, net.ErrClosed
	}
	f := c.reports[c.pos]
	c.pos++
	for k := 0; k < 8; k++ {
		b[k] = byte(f >> (8 * k))
	}
	return 8, nil
}

var vC13ListenSwitches = 2

// H_C13_listen: the BESS plug-in's real report loop (bess.notifyListen: socket
// read, F-SEID decoding, its own limiter with the 20 s interval) fed with three
// reports, the first two for the same session and all within one interval; the
// consumer drains the report channel concurrently. Under every interleaving of
// the goroutines involved (scheduling decisions at channel and sync.Map
// operations), exactly one notification per session reaches the channel.
func H_C13_listen() {
	vConcreteClock(1000000) // 1 ms between clock reads: everything happens within one interval
	f1 := vU64("fseid_a")
	f2 := vU64("fseid_b")
	vAssume(f1 != f2)
	sock := &vReportSock{vConn: *vNewConn(), reports: []uint64{f1, f1, f2}}
	b := &bess{notifyBessSocket: sock}
	ch := make(chan uint64, 1)
	got := map[uint64]int{}
	total := 0
	var mu sync.Mutex
	go func() {
		for f := range ch {
			mu.Lock()
			got[f]++
			total++
			mu.Unlock()
		}
	}()
	vPreemptAtChans(vC13ListenSwitches)
	b.notifyListen(ch) // returns when the socket fails
	vSettle()
	mu.Lock()
	n1, n2, n := got[f1], got[f2], total
	mu.Unlock()
	vAssert("listen:one-notification-for-two-reports-of-a-session-within-the-interval", n1 == 1)
	vAssert("listen:the-other-session-is-notified-once", n2 == 1)
	vAssert("listen:nothing-else-is-forwarded", n == 2)
	vCover("listen")
}

// R_C13_stress_listen: native counterpart, many rounds with real goroutines.
func R_C13_stress_listen() {
	deadline := time.Now().Add(40 * time.Second)
	for round := 0; time.Now().Before(deadline); round++ {
		f1, f2 := uint64(2*round+1), uint64(2*round+2)
		sock := &vReportSock{vConn: *vNewConn(), reports: []uint64{f1, f1, f2}}
		b := &bess{notifyBessSocket: sock}
		ch := make(chan uint64, 1)
		var c1, c2, total int64
		fin := make(chan struct{})
		go func() {
			for {
				select {
				case f := <-ch:
					if f == f1 {
						atomic.AddInt64(&c1, 1)
					}
					if f == f2 {
						atomic.AddInt64(&c2, 1)
					}
					atomic.AddInt64(&total, 1)
				case <-fin:
					return
				}
			}
		}()
		b.notifyListen(ch)
		time.Sleep(300 * time.Microsecond)
		for w := 0; w < 50 && atomic.LoadInt64(&total) < 2; w++ {
			time.Sleep(100 * time.Microsecond)
		}
		time.Sleep(200 * time.Microsecond)
		close(fin)
		if a, bb, t := atomic.LoadInt64(&c1), atomic.LoadInt64(&c2), atomic.LoadInt64(&total); a != 1 || bb != 1 || t != 2 {
			vStressFail(fmt.Sprintf("round %d: session A notified %d times, session B %d times, %d in total (want 1, 1, 2)", round, a, bb, t))
		}
	}
}

// H_C13_seqconc: the Session Report Request built by handleDigestReport gets a
// FRESH sequence number also when another goroutine of the association (the
// heartbeat monitor) draws one for its own request at the same time - under
// every interleaving of the critical sections of the sequence counter.
func H_C13_seqconc() {
	e := vNewEnv(false)
	seid := uint64(0x51)
	s := PFCPSession{localSEID: seid, remoteSEID: 0x77}
	s.pdrs = append(s.pdrs, pdr{pdrID: 2, farID: 12, fseID: seid, srcIface: core})
	s.fars = append(s.fars, far{farID: 12, applyAction: ActionBuffer | ActionNotify, fseID: seid})
	_ = e.pc.store.PutSession(s)
	e.pc.seqNum.seq = vU32("prev_seq") & 0xfffff
	vPreemptAtLocks(3)
	vPreemptOn(&e.pc.seqNum.mux)
	var hbSeq uint32
	var wg sync.WaitGroup
	wg.Add(2)
	go func() { defer wg.Done(); e.pc.handleDigestReport(seid) }()
	go func() { defer wg.Done(); hbSeq = e.pc.getHeartBeatRequest().msg.Sequence() }()
	wg.Wait()
	vJoin()
	m, ok := e.vLastReply().(*message.SessionReportRequest)
	vAssert("seqconc:report-sent", ok && len(e.conn.writes) == 1)
	vAssert("seqconc:report-and-concurrent-heartbeat-carry-different-sequence-numbers", m.Sequence() != hbSeq)
	vCover("seqconc")
}

// R_C13_stress_seqconc: native counterpart.
func R_C13_stress_seqconc() {
	deadline := time.Now().Add(30 * time.Second)
	for round := 0; time.Now().Before(deadline); round++ {
		pc, _ := vC02Env()
		var a, b [200]uint32
		var start, wg sync.WaitGroup
		start.Add(1)
		wg.Add(2)
		go func() {
			defer wg.Done()
			start.Wait()
			for k := range a {
				a[k] = pc.getSeqNum()
			}
		}()
		go func() {
			defer wg.Done()
			start.Wait()
			for k := range b {
				b[k] = pc.getHeartBeatRequest().msg.Sequence()
			}
		}()
		start.Done()
		wg.Wait()
		seen := map[uint32]bool{}
		for _, x := range a {
			seen[x] = true
		}
		for _, x := range b {
			if seen[x] {
				vStressFail(fmt.Sprintf("round %d: sequence number %d was handed to two requests", round, x))
			}
		}
	}
}
