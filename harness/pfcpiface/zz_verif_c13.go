//go:build verif

package pfcpiface

import (
	"github.com/wmnsk/go-pfcp/message"
)

// C13 — downlink data notifications reach the control plane.

// H_C13_digest: handleDigestReport on a store holding an arbitrary session.
func H_C13_digest() {
	e := vNewEnv(false)
	seid := vU64("seid")
	vAssume(seid != 0)
	rseid := vU64("remote_seid")
	s := PFCPSession{localSEID: seid, remoteSEID: rseid}
	np := 1 + vChoose("npdr", 2)
	for k := 0; k < np; k++ {
		p := pdr{pdrID: uint32(vU16("pdr_id")), farID: vU32("far_id"), fseID: seid, srcIface: access}
		if vBool("downlink") {
			p.srcIface = core
		}
		s.pdrs = append(s.pdrs, p)
	}
	nf := vChoose("nfar", 3)
	for k := 0; k < nf; k++ {
		f := far{farID: vU32("far"), applyAction: vU8("apply_action"), fseID: seid}
		for _, o := range s.fars {
			vAssume(o.farID != f.farID)
		}
		s.fars = append(s.fars, f)
	}
	_ = e.pc.store.PutSession(s)
	e.pc.seqNum.seq = vU32("prev_seq") & 0xffffff
	prevSeq := e.pc.seqNum.seq

	report := vU64("report_fseid")
	before := len(e.conn.writes)
	e.pc.handleDigestReport(report)
	sent := len(e.conn.writes) - before
	vObserve("digest", sent)
	vAssert("at-most-one-message", sent <= 1)
	if report != seid {
		vCover("unknown-session")
		vAssert("unknown-session:nothing-sent", sent == 0)
		return
	}
	// reference: the session's downlink rule = its first PDR whose source is the core side
	var dl *pdr
	for k := range s.pdrs {
		if s.pdrs[k].srcIface == core {
			dl = &s.pdrs[k]
			break
		}
	}
	if dl == nil {
		vCover("no-downlink-pdr")
		vAssert("no-downlink-pdr:nothing-sent", sent == 0)
		return
	}
	var df *far
	for k := range s.fars {
		if s.fars[k].farID == dl.farID {
			df = &s.fars[k]
		}
	}
	asks := df != nil && df.applyAction&ActionNotify != 0
	if !asks {
		vCover("rule-does-not-ask")
		if df == nil {
			vTag("downlink-far-missing")
		}
		vAssert("rule-does-not-ask-for-notification:nothing-sent", sent == 0)
		return
	}
	if dl.pdrID == 0 {
		// PDR id 0 is not a valid rule id (3GPP: 1..65535); the code treats it as "none"
		vCover("pdr-id-zero")
		return
	}
	vCover("notified")
	vAssert("notified:one-session-report-request", sent == 1)
	m, ok := e.vLastReply().(*message.SessionReportRequest)
	vAssert("notified:is-session-report-request", ok)
	vAssert("notified:addressed-with-cp-seid", m.SEID() == rseid)
	vAssert("notified:fresh-sequence-number", m.Sequence() != prevSeq)
	vAssert("notified:has-downlink-data-report", m.DownlinkDataReport != nil && m.ReportType != nil)
	id, err := m.DownlinkDataReport.PDRID()
	vAssert("notified:names-the-downlink-pdr", err == nil && uint32(id) == dl.pdrID)
	// a second report gets another fresh sequence number
	e.pc.handleDigestReport(report)
	m2, ok2 := e.vLastReply().(*message.SessionReportRequest)
	vAssert("second:sent", ok2 && len(e.conn.writes) == before+2)
	vAssert("second:sequence-differs", m2.Sequence() != m.Sequence())
}
