#!/usr/bin/env python3
# Regenerates MANIFEST.json from the table below (kept in one place so that the
# manifest stays valid and in step with harness/registry.json).
import json, os
V = os.path.dirname(os.path.abspath(__file__))
TECH = "symbolic execution of the real Go SSA (gosym, fork of x/tools go/ssa/interp) with branch feasibility and assertions decided by z3; counterexamples replayed natively"
claimed = {
 "C17": dict(
  text="Bounded model checking by symbolic execution of the real parse_pdr.go functions: every path of CreatePortRangeCartesianProduct / classification / trivial conversion is executed with both ranges and a probe packet symbolic; the solver decides on each path that the produced rules match exactly the ranges (or that refusal happens exactly for unrepresentable pairs). Complete for all 2^32 ranges per side and all probes for the Exact strategy; the Ternary strategy is covered by an inductive first-block lemma plus whole expansions of <= N rules.",
  note="Assumes ranges are not inverted (parsePort refuses them; C08). Trusts z3 (answers cross-checked against z3 5.1 in the thorough tier), go/ssa's lowering of the source, and the engine's instruction semantics (validated on every run by replaying sampled passing paths natively and comparing observations).",
  ref="DESIGN.md 6.17"),
}
pending = {}
na = {
 "C10": "every clause quantifies over goroutine interleavings of teardown triggers and bounded-time termination; a sequential SSA-to-SMT executor cannot encode Go's scheduler, select and timers (DESIGN.md 6.10)",
}
props = [json.loads(l)["id"] for l in open(os.path.join(V, "properties.jsonl"))]
for p in props:
    if p not in claimed and p not in na:
        pending[p] = "check not built yet in this session (planned, see DESIGN.md section 6); not claimed until it runs clean"
checks = []
for pid in props:
    if pid not in claimed: continue
    c = claimed[pid]
    checks.append({
        "property_id": pid,
        "quick_cmd": f"./check {pid} quick",
        "thorough_cmd": f"./check {pid} thorough",
        "evidence_file": f"/verif/evidence/{pid}.json",
        "replay_cmd_template": "./check replay {path}",
        "engine": c.get("engine", "gosym"),
        "level_claimed": {"category": "model_checking", "text": c["text"], "design_ref": c["ref"]},
        "level_note": c["note"],
        "technique": c.get("technique", TECH),
    })
m = {
 "version": 1,
 "setup_cmd": "./build.sh",
 "hooks": {"guard": "verif", "enable": "harness files are injected as an overlay (go/packages Overlay, go test -overlay) with -tags verif; nothing is committed to /repo for them",
           "baseline_off_cmd": "cd /repo && for m in . ; do go test -vet=off -count=1 -timeout 25m ./... ; done",
           "source_commits": [], "add_only": True},
 "engines": [
  {"name": "gosym", "path": "/verif/engine", "serves_properties": [p for p in props if p in claimed and claimed[p].get("engine","gosym")=="gosym"],
   "kind_free_text": "symbolic executor for Go SSA (fork of golang.org/x/tools/go/ssa/interp v0.29.0) + z3 over SMT-LIB2 pipe; replay-based DFS over decision vectors; native replay via go test -overlay"},
 ],
 "checks": checks,
 "not_applicable": [{"property_id": k, "reason": v} for k, v in list(na.items()) + list(pending.items())],
 "notes": "exit codes of ./check: 0 held within the stated bounds, 1 VIOLATION (replayed natively), 2 inconclusive (unknown/unsupported/unwinding/vacuity), 3 engine mismatch. KNOWN-FINDING lines come from /verif/known_findings.json.",
}
json.dump(m, open(os.path.join(V, "MANIFEST.json"), "w"), indent=1)
print("claimed:", [c["property_id"] for c in checks])
