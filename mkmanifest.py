#!/usr/bin/env python3
# Regenerates MANIFEST.json from the table below (kept in one place so that the
# manifest stays valid and in step with harness/registry.json).
import json, os
V = os.path.dirname(os.path.abspath(__file__))
TECH = "symbolic execution of the real Go SSA (gosym, fork of x/tools go/ssa/interp) with branch feasibility and assertions decided by z3; counterexamples replayed natively"
claimed = {
 "C17": dict(
  text="Bounded model checking by symbolic execution of the real parse_pdr.go functions: every path of CreatePortRangeCartesianProduct / classification / trivial conversion is executed with both ranges and a probe packet symbolic; the solver decides on each path that the produced rules match exactly the ranges (or that refusal happens exactly for unrepresentable pairs). Complete for all 2^32 ranges per side and all probes for the Exact strategy. The Ternary strategy is covered by an inductive block lemma over the real portMask/maxPort literals for every (block start, range end) and every probe, plus the whole expansion loop for all ranges up to 8 (quick) / 12 (thorough) ports wide. Refusal end to end (shared harness H_C03_wide): an unrepresentable pair arriving in an establishment, in a modification creating or updating a PDR, or handed to the BESS plug-in with both sides ranges, is refused and nothing is written.",
  note="Assumes ranges are not inverted (parsePort refuses them; C08). Ternary ranges wider than the stated width rest on the block lemma plus the four-line loop (continue at block end + 1 while <= high), which is only executed for the bounded widths. Trusts z3, go/ssa's lowering of the source, and the engine's instruction semantics (validated on every run by replaying sampled passing paths natively and comparing observations).",
  ref="DESIGN.md 6.17, 10"),
}
claimed.update({
 "C02": dict(
  text="Bounded model checking: the real HandlePFCPMsg stack (message.Parse, dispatch, all handlers, SendPFCPMsg, go-pfcp marshalling) is executed symbolically on requests built by go-pfcp with symbolic sequence numbers, SEIDs and rule values, against a fake socket, an arbitrary accept/reject datapath and an arbitrary random source; on every path the solver decides that exactly one datagram of the matching response type with the request's sequence number and the right SEID/F-SEID/Created-PDR content was written (none for response-type messages).",
  note="History bound: establishment + 1 (quick) / 2 (thorough) further requests over <= 2 sessions; maxRetries = 2; fake datapath; request shapes are those of a well-formed baseline (malformed shapes are C01). Trust: z3, go/ssa, engine semantics (validated per run by native replay of sampled paths).",
  ref="DESIGN.md 6.2"),
 "C06": dict(
  text="Inductive one-step check: from an arbitrary pool state satisfying the representation invariant (symbolic addresses, SEIDs, free/held split) one LookupOrAllocIP / DeallocIP with a symbolic SEID is executed symbolically and the solver decides range, exclusivity, stickiness, conservation and refusal-only-when-full; because the pre-state is arbitrary, histories of any length are covered for the pool sizes explored. Interleavings are covered in two layers: a path-sensitive lock-discipline check (every access to inventory/freePool on every path holds IPPool.mu; violations replayed under the race detector), and - given that discipline - an exploration of every interleaving of the critical sections of two goroutines (LookupOrAllocIP against LookupOrAllocIP [+ DeallocIP], same or different session, scheduling decision at each mutex acquisition, context-switch bound 3), asserting stickiness, exclusivity and conservation; a schedule-dependent violation is confirmed natively by a stress run of the same scenario. Construction is checked on concrete prefixes. Conservation at the session level is checked by the shared harness H_C05_cycles (more attach/detach cycles than the pool has addresses, every kind of session end).",
  note="Pool sizes /29 (quick), /28 (thorough); the allocation trigger (UE IP Address IE flags) is exercised through C02/C05 harnesses. Assumes sync.Mutex gives mutual exclusion. Schedules: 2 goroutines, <= 3 operations, interleavings at critical-section granularity (finer ones are irrelevant once no shared access happens outside a critical section, which the discipline check establishes on the same paths); more goroutines or longer operation sequences are outside.",
  ref="DESIGN.md 6.6"),
 "C07": dict(
  text="Inductive one-step checks: FTEIDGenerator.Allocate/FreeID/IsAllocated from an arbitrary valid generator state (symbolic cursor, so wrap-around of the 32-bit cursor is an ordinary case, symbolic used set) and NewPFCPSession with an arbitrary, possibly repeating random source against a store holding arbitrary live sessions; the solver decides non-zero, uniqueness among live ids, cursor invariant and refusal rules. Concurrent requests: lock discipline on usedMap/offset plus every interleaving of the critical sections of two goroutines (Allocate against Allocate [+ FreeID]), context-switch bound 3. A UPF-chosen identifier stays marked while its session lives whatever CP-chosen identifiers other sessions bring and release (H_C07_live, all 2^32 values); a CHOOSE F-TEID on a core-side PDR is served like one on the access side (H_C07_core). Agreement between reported and programmed identifiers is checked in the C02/C05 message harnesses.",
  note="Used set <= 2 (quick) / 4 (thorough) entries, store <= 2/3 sessions, maxRetries <= 2/4. Assumes sync.Mutex gives mutual exclusion; schedules of 2 goroutines at critical-section granularity only; SEID draw and PutSession are not atomic across goroutines of ONE association (there is one goroutine per association).",
  ref="DESIGN.md 6.7"),
 "C09": dict(
  text="Bounded model checking of the session-QER selection: MarkSessionQer (with Intersect/contains/findItemIndex) is executed symbolically on sessions with 1..3 PDRs, QER-id lists of 0..3 ids and 0..3 QERs, every id and rate symbolic; the solver decides on every path that at most one QER is marked, that the marked QER is referenced by every PDR, that QER values are untouched and that the handlers' two-call protocol marks the same id in the stored and in the message list.",
  note="Rates/gates/bursts reaching BESS (H_C09_bess/_bessburst), the UP4 terminations (H_C09_up4term) and the UP4 meter configuration (shared H_C16_meter: peak rate = MBR x 125 bytes/s exactly) are checked in the plug-in harnesses; the float burst computation is outside (see DESIGN.md). QER ids unique per list/session (PFCP).",
  ref="DESIGN.md 6.9"),
 "C19": dict(
  text="Bounded model checking of ConfigHandler.ServeHTTP / handleSliceConfig / calculateBitRates with the method an arbitrary string, the body unreadable, malformed or any well-formed NetworkSlice with 64-bit rates and bursts, against a recording ResponseWriter and datapath; the solver decides one 405 and no datapath call for other methods, exactly one 4xx and no datapath call for bad bodies, one 201 and rates = MBR x unit (checked against overflow-free arithmetic) whenever non-zero and < 2^63.",
  note="encoding/json is stubbed under the engine following its documented contract over three kinds of body - well-formed, malformed from the start, well-formed value followed by junk (Unmarshal accepts only the first; Decoder.Decode also decodes the first value of the third) - and real in the native replay; the BESS/UP4 AddSliceInfo implementations are exercised in the plug-in harnesses.",
  ref="DESIGN.md 6.19"),
})
claimed.update({
 "C01": dict(
  text="Bounded model checking: for each of the ten message types HandlePFCPMsg dispatches, a datagram is serialised from a valid baseline IE tree with one (quick) or two (thorough) structural mutations at any IE of the tree (drop, duplicate, empty, truncate, retype, arbitrary first byte, first byte only, arbitrary payload / truncated flow description), injected before/after association and before/after an accepted establishment into the real message.Parse + dispatch + handlers; arbitrary raw datagrams of <= 9 (quick) / 14 (thorough) bytes are explored too, and the association's real receive loop (PFCPConn.Serve: reader goroutine, read deadline, dispatch, time-out, Shutdown) runs on a scripted socket delivering a valid request, an arbitrary datagram of 0..2 bytes (the empty UDP datagram included) and another valid request. Every Go run-time panic, process exit, blocked channel operation or second response on any path is a violation; a valid heartbeat afterwards must be answered.",
  note="Outside: long raw byte strings with symbolic length fields (go-pfcp offset arithmetic), goroutines the handlers start, schedules. The datapath is a fake that accepts. Fixed defects found by this check are listed in known_findings.json.",
  ref="DESIGN.md 6.1"),
 "C05": dict(
  text="Bounded model checking of session teardown: establishment (accepted, rejected by parsing, rejected by the datapath), optional modification (create with/without CHOOSE, update, remove) and each of the four ways a session ends are executed symbolically through the real handlers, Shutdown, RemoveSession, IPPool and FTEIDGenerator against a fake datapath whose table image is kept by the harness; the solver decides on every path that no rule, session record, gauge unit, TEID or UE address is left, and that more attach/detach cycles than the pool has addresses all succeed. The UP4 plug-in's own release logic is covered by the shared harness H_C04_history (every meter cell free or configured for a live QER after every request, deletion included).",
  note="Generic fake datapath (the plug-ins' own release logic is C04/C15/C03); 1 session, history <= 3 requests; concurrent teardown triggers are C10.",
  ref="DESIGN.md 6.5"),
 "C08": dict(
  text="Bounded model checking over token atoms: parseFlowDesc/parseNet/parsePort/parseSDFFilter are executed on a flow description that is an arbitrary sequence of <= 8 (quick) / 10 (thorough) arbitrary tokens; a reference recogniser of the canonical grammar over the same tokens decides acceptance, endpoint networks, ports, protocol, orientation by source interface and the documented port workaround; refused text must keep the UE-address pre-fill. A byte-level harness runs the REAL strings.Fields, strings.Split and strconv.ParseUint on a flow description whose port token is 1..5 (quick) / 1..6 (thorough) arbitrary printable bytes and compares with a byte-level reference, cross-checking the contracts the token-level harnesses assume. PFD management (replace on accept, rollback on every reject exit) and parseApplicationID (direction keyword, verbatim copy, tolerated bad flow) are explored on tables drawn from five flow descriptions.",
  note="strings.Fields/Split, strconv.ParseUint, net.ParseCIDR on atoms are uninterpreted functions under their documented contracts (trusted standard library); counterexamples are inverted to concrete text and replayed natively.",
  ref="DESIGN.md 6.8"),
 "C12": dict(
  text="Bounded model checking of the association / heartbeat / retransmission logic with the real channel code running under the engine's goroutine and timer model: sendPFCPRequestMessage + Request.GetResponse + handleIncomingResponse with a peer goroutine answering the k-th transmission, under every loss pattern (retries 0..3 quick / 0..8 thorough); the heartbeat monitor end to end (a pending peer-heartbeat reset re-arms the timer with the heartbeat interval; on expiry an unanswered heartbeat is sent 1+max_req_retries times, the peer is declared dead, its sessions are removed, the association is reported done); handleIncomingResponse for matching/wrong/duplicate sequence numbers; handleHeartbeatRequest in every association state with every reset-channel backlog; handleAssociationSetupRequest for all 8 feature configurations x datapath up/down; getSeqNum for all counters.",
  note="Narrowed: the engine has no elapsed time - a model timer fires when no goroutine can make progress otherwise - so spacing by resp_timeout and by the heartbeat interval is not decided by the solver; the interval used to re-arm the monitor's timer is observed at Ticker.Reset (symbolic durations) and, in the native replay, coarsely on the real clock (300 ms / 40 ms). tryConnectToN4Peers is not run.",
  ref="DESIGN.md 6.12, 10"),
 "C13": dict(
  text="Bounded model checking of both halves. (1) handleDigestReport on a store holding an arbitrary session (1..2 PDRs of either direction, 0..2 FARs with arbitrary Apply Action): nothing is sent for unknown sessions, sessions without downlink PDR or whose downlink FAR does not ask (or does not exist); otherwise exactly one Session Report Request with the CP SEID, a fresh sequence number and the downlink PDR id. (2) The rate limiter NewDownlinkDataNotifier/Notify/shouldNotify over 3 reports (4 and 5 returned solver unknown and are not claimed) with arbitrary F-SEIDs under a symbolic strictly increasing clock and an arbitrary interval: a first report is always forwarded, two forwarded reports of one session are at least one interval apart, a report is suppressed only within one interval of a forwarded one. The report channel holds one event and is drained by a slow consumer goroutine, so a full channel must delay the limiter, never make it drop.",
  note="The clock is an input: every time.Now/Since of repository code reads a fresh symbolic instant; the native replay feeds the same instants to the real code through a patched copy of package time in the overlay of the replay build. The UP4 digest loop, the BESS socket reader and node.Serve's dispatch are blocking service loops and are outside. One association.",
  ref="DESIGN.md 6.13, 10"),
 "C14": dict(
  text="Bounded model checking of end-marker emission: a session with two downlink FARs on arbitrary tunnels receives a modification with 1..2 (quick) / 1..3 (thorough) Update FARs (target found/unknown, arbitrary new tunnel, arbitrary PFCPSMReq-Flags byte or none), feature on/off, datapath accept/reject; the solver decides the number of markers, their destination (tunnel before that update), TEID, source, UDP ports, GTP type and that they are handed to the datapath after the update was programmed. On UP4 the markers must reach the queue the sender loop reads, also after the datapath was initialised again (reconnect).",
  note="gopacket.SerializeLayers is stubbed under the engine (layer structs recorded) and real in the native replay (packet bytes decoded); the transports of SendEndMarkers are outside.",
  ref="DESIGN.md 6.14"),
})
claimed.update({
 "C03": dict(
  text="Bounded model checking of the BESS translation: the real PFCP handlers and bess.SendMsgToUPF/addPDR/delPDR/addFAR/delFAR/addQER/delQER/processPDR/FAR/QER/GRPCJoin/clearState run symbolically against an in-harness BESS (ModuleCommand add/delete/clear on pdrLookup, farLookup, appQERLookup, sessionQERLookup, sliceMeter). After every request of a history (establishment + 1 quick / 2 thorough further requests over <= 2 sessions) the solver decides that the module tables equal the image computed from the session store, that rejected requests leave them unchanged, that restart clears them, and - with all PDR field values and the packet symbolic - that the entries of one PDR match exactly the packets the PDR describes.",
  note="In-harness BESS (no gRPC transport, no real bessd); the plug-in's per-call goroutines run under ONE deterministic schedule of the engine's baton scheduler; concrete rule values from small sets in the history harness, symbolic ones in the packet harness (true port ranges <= 2 quick / 4 thorough wide; all widths are C17).",
  ref="DESIGN.md 6.3, 10"),
 "C04": dict(
  text="Bounded model checking of the UP4 translation: the real handlers, UP4.SendMsgToUPF/sendCreate/sendUpdate/sendDelete/modifyUP4ForwardingConfiguration, reference-counting helpers, P4rtTranslator and P4rtClient run symbolically against an in-harness P4Runtime target. After every request of a history (establishment + 1 quick / 2 thorough of {second session, Update FAR to a new peer / buffer / drop / forward / idle without outer header, deletion, unknown session}) the solver decides that the target's tables, meters and the agent's id pools equal the image computed from the session store (sessions, terminations, applications, tunnel peers shared by reference count), and that initialize(true) clears a previous incarnation's entries.",
  note="In-harness target implementing INSERT/MODIFY/DELETE/Read per the P4Runtime specification; real gRPC, reconnect loop and digests outside. Rule values concrete from small sets (arbitrary values are C16); <= 2 sessions.",
  ref="DESIGN.md 6.4, 10"),
 "C11": dict(
  text="Two layers. (1) Race freedom by lock discipline, decided path-sensitively: on every explored path of create/update/delete for two sessions through UP4.SendMsgToUPF, of establishment / teardown through the handlers and of create/modify/delete through the BESS plug-in, every access to the shared datapath and allocator state (tunnelPeerIDs, applicationIDs, their pools, meters, ueAddrToFSEID, fseidToUEAddr, IPPool inventory/freePool, FTEIDGenerator usedMap/offset) happens while the declared mutex is held, and the lock-free shared QCI map is never written; violations are replayed natively by two goroutines under the Go race detector. (2) Outcomes under interleaving for one scenario: association 1 deletes session A while association 2 establishes session B with a UPF-chosen address from a pool with one or no free address, under every interleaving of their critical sections (scheduling decision at each acquisition of the shared pool's, generator's and datapath's mutex, context-switch bound 4): every accepted live session owns its datapath entry, addresses held = live sessions, pool conserved - i.e. the result is one a one-at-a-time order could have produced. A schedule-dependent violation is confirmed natively by a stress run.",
  note="The interleaving layer uses a keyed model of the datapath (downlink entries keyed by UE address, each call one critical section); other request pairs, more than two associations, the BESS plug-in's per-call goroutine ordering and crash isolation are NOT claimed. sync.Mutex is assumed to give mutual exclusion.",
  ref="DESIGN.md 6.11, 10"),
 "C15": dict(
  text="Bounded fault-position model checking: establishment, optional modification and deletion of one session followed by a second session run through the real handlers and UP4 code against the in-harness P4Runtime target with ONE failing Write whose position k is symbolic (1..14 quick / 1..16 thorough, or none) and whose kind is a transport error, INVALID_ARGUMENT, NOT_FOUND or ALREADY_EXISTS; on every path the solver decides that the request is rejected when its write failed, and that counter cells, meter cells, tunnel-peer ids and application ids owned by live entries stay exclusive and are neither leaked nor handed out twice afterwards.",
  note="A failing Write applies nothing (P4Runtime batch atomicity as the agent uses it: one update per Write) except ALREADY_EXISTS, which the agent tolerates. Pools shrunk to 6 cells so that exhaustion and reuse are reachable. Two faults in one history are outside.",
  ref="DESIGN.md 6.15, 10"),
 "C16": dict(
  text="Bounded model checking of encoding validity: every table entry, meter entry and counter request the P4rtTranslator builds (all five table builders on arbitrary arguments; sendCreate/sendDelete - and, for the uplink PDR, sendUpdate - end to end for symbolic uplink and downlink PDRs) is validated, field by field, against the P4Info regenerated on every run from conf/p4/bin/p4info.txt: table/action/field/param ids exist and belong together, value widths fit the declared bit widths in canonical form, match kinds agree, priorities present exactly for ternary/range tables, meter/counter indices within size. The start-up identifier pools (meter and counter cells, tunnel-peer and application ids) are checked to hold only values valid for the declared arrays and field widths. A precondition re-runs the generator and compares internal/p4constants byte for byte.",
  note="Rule values inside the envelope the PFCP handlers guarantee (prefix masks, ordered ports, 6-bit QFI, 40-bit rates, slice <= 15, TC <= 3). The validator is the harness's own reading of the P4Runtime specification section 9.1; a real switch is outside.",
  ref="DESIGN.md 6.16, 10"),
 "C18": dict(
  text="Bounded model checking in two parts. (1) LoadConfigFile's default filling and validateConf on an arbitrary decoded Conf (every field the two functions read symbolic, strings as atoms with ParseCIDR/ParseIP/ParseDuration uninterpreted): on every path the solver decides that a configuration is accepted only if mode, addresses, pool, timeouts, retries and log level are within their documented domains, that the documented defaults are filled exactly when the field is absent, and that an unreadable or undecodable file is an error. (2) removeComments: the real regular expression is compiled and executed by the real regexp package under the engine (syntax.Parse, compile, backtracker, ReplaceAllString) on text whose bytes are symbolic: three text segments and two comments (block/block, line/line, block/line, line/block), each 0..2 (quick) / 0..3 (thorough) arbitrary printable-ASCII bytes; the result must be the text with exactly the comments cut out.",
  note="Narrowed: os.ReadFile and json.Unmarshal are stubs under the engine (real in the native replay, which writes the model as a commented JSON file); JSON syntax, 'never panics on arbitrary bytes', non-ASCII text and the shipped sample files are not claimed. Text segments contain no '/', block-comment bodies no '*/' (so that the expected result is unambiguous); longer texts are outside the bound.",
  ref="DESIGN.md 6.18, 10"),
 "C20": dict(
  text="Symbolic execution of the real conf/route_control.py (Python) by CrossHair with z3: netlink route/neighbour events over a small universe of prefixes, gateways, interfaces and MAC addresses are symbolic; after each event sequence (quick: all 27 kind sequences of 3 events plus the 12 orders of {new route, new route, delete route, neighbour notification} and the 12 orders of {new route, silent kernel resolution, new route, notification}; thorough: all 81 sequences of 4 events plus the 108 with one silent kernel resolution; kinds are new-route / delete-route / neighbour notification / kernel resolves with the notification still pending; the first event's indices fixed per process, the others symbolic) the fake BESS's IPLookup/Update module state must equal the image of the kernel tables the events describe (routes whose next hop resolved, one Update module per neighbour with correct gates, nothing left for deleted routes).",
  note="pyroute2, pybess and scapy are stub modules (documented contracts); universes A = 3 prefixes x 2 next hops x 1 interface and B = 2 prefixes x 1 next hop x 2 interfaces; CrossHair's per-path timeout is a bound: paths it does not finish are reported in the evidence. One known finding (neighbour cache keyed by IP only) is listed in known_findings.json.",
  engine="crosshair",
  technique="symbolic execution of the real Python source with CrossHair (z3 back end); counterexamples replayed on the plain interpreter",
  ref="DESIGN.md 6.20, 10"),
})
pending = {}
na = {
 "C10": "every clause quantifies over interleavings of teardown triggers (channel close/send, select, timers, context cancellation, socket read deadlines) and over bounded-time termination; the engine explores schedules only at mutex-acquisition granularity for two goroutines (sound where shared accesses are lock-protected), which does not cover channel/select/timer interleavings of node.Serve, conn.Serve and the heartbeat monitor, and it has no notion of elapsed time (DESIGN.md 6.10, 10.7)",
}
props = [json.loads(l)["id"] for l in open(os.path.join(V, "properties.jsonl"))]
for p in props:
    if p not in claimed and p not in na:
        pending[p] = "check not built yet in this session (planned, see DESIGN.md section 6); not claimed until it runs clean"
checks = []
for pid in props:
    if pid not in claimed: continue
    c = claimed[pid]
    checks.append({
        "property_id": pid,
        "quick_cmd": f"./check {pid} quick",
        "thorough_cmd": f"./check {pid} thorough",
        "evidence_file": f"/verif/evidence/{pid}.json",
        "replay_cmd_template": "./check replay {path}",
        "engine": c.get("engine", "gosym"),
        "level_claimed": {"category": "model_checking", "text": c["text"], "design_ref": c["ref"]},
        "level_note": c["note"],
        "technique": c.get("technique", TECH),
    })
m = {
 "version": 1,
 "setup_cmd": "./build.sh",
 "hooks": {"guard": "verif", "enable": "harness files are injected as an overlay (go/packages Overlay, go test -overlay) with -tags verif; nothing is committed to /repo for them",
           "baseline_off_cmd": "cd /repo && for m in . ; do go test -vet=off -count=1 -timeout 25m ./... ; done",
           "source_commits": [], "add_only": True},
 "engines": [
  {"name": "gosym", "path": "/verif/engine", "serves_properties": [p for p in props if p in claimed and claimed[p].get("engine","gosym")=="gosym"],
   "kind_free_text": "symbolic executor for Go SSA (fork of golang.org/x/tools/go/ssa/interp v0.29.0) + z3 over SMT-LIB2 pipe; replay-based DFS over decision vectors; native replay via go test -overlay"},
  {"name": "crosshair", "path": "/verif/c20", "serves_properties": ["C20"],
   "kind_free_text": "CrossHair (python3-vt) symbolic execution of conf/route_control.py against stub modules and a world model; z3 back end; concrete replay"},
 ],
 "checks": checks,
 "not_applicable": [{"property_id": k, "reason": v} for k, v in list(na.items()) + list(pending.items())],
 "notes": "exit codes of ./check: 0 held within the stated bounds, 1 VIOLATION (replayed natively), 2 inconclusive (unknown/unsupported/unwinding/vacuity), 3 engine mismatch. KNOWN-FINDING lines come from /verif/known_findings.json.",
}
json.dump(m, open(os.path.join(V, "MANIFEST.json"), "w"), indent=1)
print("claimed:", [c["property_id"] for c in checks])
