#!/usr/bin/env python3
# Regenerates MANIFEST.json from the table below (kept in one place so that the
# manifest stays valid and in step with harness/registry.json).
import json, os
V = os.path.dirname(os.path.abspath(__file__))
TECH = "symbolic execution of the real Go SSA (gosym, fork of x/tools go/ssa/interp) with branch feasibility and assertions decided by z3; counterexamples replayed natively"
claimed = {
 "C17": dict(
  text="Bounded model checking by symbolic execution of the real parse_pdr.go functions: every path of CreatePortRangeCartesianProduct / classification / trivial conversion is executed with both ranges and a probe packet symbolic; the solver decides on each path that the produced rules match exactly the ranges (or that refusal happens exactly for unrepresentable pairs). Complete for all 2^32 ranges per side and all probes for the Exact strategy; the Ternary strategy is covered by an inductive first-block lemma plus whole expansions of <= N rules.",
  note="Assumes ranges are not inverted (parsePort refuses them; C08). Trusts z3 (answers cross-checked against z3 5.1 in the thorough tier), go/ssa's lowering of the source, and the engine's instruction semantics (validated on every run by replaying sampled passing paths natively and comparing observations).",
  ref="DESIGN.md 6.17"),
}
claimed.update({
 "C02": dict(
  text="Bounded model checking: the real HandlePFCPMsg stack (message.Parse, dispatch, all handlers, SendPFCPMsg, go-pfcp marshalling) is executed symbolically on requests built by go-pfcp with symbolic sequence numbers, SEIDs and rule values, against a fake socket, an arbitrary accept/reject datapath and an arbitrary random source; on every path the solver decides that exactly one datagram of the matching response type with the request's sequence number and the right SEID/F-SEID/Created-PDR content was written (none for response-type messages).",
  note="History bound: establishment + 1 (quick) / 2 (thorough) further requests over <= 2 sessions; maxRetries = 2; fake datapath; request shapes are those of a well-formed baseline (malformed shapes are C01). Trust: z3, go/ssa, engine semantics (validated per run by native replay of sampled paths).",
  ref="DESIGN.md 6.2"),
 "C06": dict(
  text="Inductive one-step check: from an arbitrary pool state satisfying the representation invariant (symbolic addresses, SEIDs, free/held split) one LookupOrAllocIP / DeallocIP with a symbolic SEID is executed symbolically and the solver decides range, exclusivity, stickiness, conservation and refusal-only-when-full; because the pre-state is arbitrary, histories of any length are covered for the pool sizes explored. Interleavings are covered by a path-sensitive lock-discipline check (every access to inventory/freePool on every path holds IPPool.mu), replayed with the race detector when violated. Construction is checked on concrete prefixes.",
  note="Pool sizes /29 (quick), /28 (thorough); the allocation trigger (UE IP Address IE flags) is exercised through C02/C05 harnesses. Assumes sync.Mutex gives mutual exclusion; goroutine schedules are not executed.",
  ref="DESIGN.md 6.6"),
 "C07": dict(
  text="Inductive one-step checks: FTEIDGenerator.Allocate/FreeID/IsAllocated from an arbitrary valid generator state (symbolic cursor, so wrap-around of the 32-bit cursor is an ordinary case, symbolic used set) and NewPFCPSession with an arbitrary, possibly repeating random source against a store holding arbitrary live sessions; the solver decides non-zero, uniqueness among live ids, cursor invariant and refusal rules. Lock discipline on usedMap/offset covers concurrent requests. Agreement between reported and programmed identifiers is checked in the C02/C05 message harnesses.",
  note="Used set <= 2 (quick) / 4 (thorough) entries, store <= 2/3 sessions, maxRetries <= 2/4. Assumes sync.Mutex gives mutual exclusion; schedules are not executed; SEID draw and PutSession are not atomic across goroutines (noted in DESIGN.md).",
  ref="DESIGN.md 6.7"),
 "C09": dict(
  text="Bounded model checking of the session-QER selection: MarkSessionQer (with Intersect/contains/findItemIndex) is executed symbolically on sessions with 1..3 PDRs, QER-id lists of 0..3 ids and 0..3 QERs, every id and rate symbolic; the solver decides on every path that at most one QER is marked, that the marked QER is referenced by every PDR, that QER values are untouched and that the handlers' two-call protocol marks the same id in the stored and in the message list.",
  note="Rates/gates/bursts reaching BESS and UP4 are checked in the datapath plug-in harnesses when present in registry.json; the float burst computation is outside (see DESIGN.md). QER ids unique per list/session (PFCP).",
  ref="DESIGN.md 6.9"),
 "C19": dict(
  text="Bounded model checking of ConfigHandler.ServeHTTP / handleSliceConfig / calculateBitRates with the method an arbitrary string, the body unreadable, malformed or any well-formed NetworkSlice with 64-bit rates and bursts, against a recording ResponseWriter and datapath; the solver decides one 405 and no datapath call for other methods, exactly one 4xx and no datapath call for bad bodies, one 201 and rates = MBR x unit (checked against overflow-free arithmetic) whenever non-zero and < 2^63.",
  note="encoding/json is stubbed under the engine (fails or overwrites the target arbitrarily) and real in the native replay; the BESS/UP4 AddSliceInfo implementations are exercised in the plug-in harnesses.",
  ref="DESIGN.md 6.19"),
})
pending = {}
na = {
 "C10": "every clause quantifies over goroutine interleavings of teardown triggers and bounded-time termination; a sequential SSA-to-SMT executor cannot encode Go's scheduler, select and timers (DESIGN.md 6.10)",
}
props = [json.loads(l)["id"] for l in open(os.path.join(V, "properties.jsonl"))]
for p in props:
    if p not in claimed and p not in na:
        pending[p] = "check not built yet in this session (planned, see DESIGN.md section 6); not claimed until it runs clean"
checks = []
for pid in props:
    if pid not in claimed: continue
    c = claimed[pid]
    checks.append({
        "property_id": pid,
        "quick_cmd": f"./check {pid} quick",
        "thorough_cmd": f"./check {pid} thorough",
        "evidence_file": f"/verif/evidence/{pid}.json",
        "replay_cmd_template": "./check replay {path}",
        "engine": c.get("engine", "gosym"),
        "level_claimed": {"category": "model_checking", "text": c["text"], "design_ref": c["ref"]},
        "level_note": c["note"],
        "technique": c.get("technique", TECH),
    })
m = {
 "version": 1,
 "setup_cmd": "./build.sh",
 "hooks": {"guard": "verif", "enable": "harness files are injected as an overlay (go/packages Overlay, go test -overlay) with -tags verif; nothing is committed to /repo for them",
           "baseline_off_cmd": "cd /repo && for m in . ; do go test -vet=off -count=1 -timeout 25m ./... ; done",
           "source_commits": [], "add_only": True},
 "engines": [
  {"name": "gosym", "path": "/verif/engine", "serves_properties": [p for p in props if p in claimed and claimed[p].get("engine","gosym")=="gosym"],
   "kind_free_text": "symbolic executor for Go SSA (fork of golang.org/x/tools/go/ssa/interp v0.29.0) + z3 over SMT-LIB2 pipe; replay-based DFS over decision vectors; native replay via go test -overlay"},
 ],
 "checks": checks,
 "not_applicable": [{"property_id": k, "reason": v} for k, v in list(na.items()) + list(pending.items())],
 "notes": "exit codes of ./check: 0 held within the stated bounds, 1 VIOLATION (replayed natively), 2 inconclusive (unknown/unsupported/unwinding/vacuity), 3 engine mismatch. KNOWN-FINDING lines come from /verif/known_findings.json.",
}
json.dump(m, open(os.path.join(V, "MANIFEST.json"), "w"), indent=1)
print("claimed:", [c["property_id"] for c in checks])
