// gosym: solver-based checking of the real omec-project/upf code.
//
// Loads /repo (VERIF_REPO) with the harness files of /verif/harness as an
// overlay, builds SSA, symbolically executes the harness functions of one
// property, replays every counterexample against the natively compiled code,
// and writes the evidence file.
package main

import (
	"encoding/json"
	"flag"
	"fmt"
	"os"
	"os/exec"
	"path/filepath"
	"sort"
	"strings"
	"time"

	"golang.org/x/tools/go/packages"
	"golang.org/x/tools/go/ssa"
	"golang.org/x/tools/go/ssa/ssautil"

	"gosym/interp"
)

type tierCfg struct {
	MaxSteps  int64             `json:"max_steps"`
	MaxPaths  int               `json:"max_paths"`
	TimeoutMS int               `json:"solver_timeout_ms"`
	BudgetS   int               `json:"budget_s"`
	Vars      map[string]string `json:"vars"` // informational: harness bound variables
	Skip      bool              `json:"skip"`
	MaxTokens int               `json:"max_tokens"`
}

type harnessCfg struct {
	Name       string   `json:"name"`
	Package    string   `json:"package"` // directory under the repo, default pfcpiface
	What       string   `json:"what"`
	Bounds     string   `json:"bounds"`
	Quick      tierCfg  `json:"quick"`
	Thorough   tierCfg  `json:"thorough"`
	MustCover  []string `json:"must_cover"`
	NoBlockVio bool     `json:"no_block_violation"`
	Racer      string   `json:"racer"`
	Assumes    []string `json:"assumptions"`
}

type propCfg struct {
	Property  string       `json:"property"`
	Harnesses []harnessCfg `json:"harnesses"`
	Assumes   []string     `json:"assumptions"`
}

type knownFinding struct {
	Property  string `json:"property"`
	Status    string `json:"status"` // known | fixed
	Signature string `json:"signature"`
	What      string `json:"what"`
	Commit    string `json:"commit,omitempty"`
}

var (
	repoDir    = flag.String("repo", envOr("VERIF_REPO", "/repo"), "repository under test")
	verifDir   = flag.String("verif", envOr("VERIF_DIR", "/verif"), "verification directory")
	prop       = flag.String("prop", "", "property id")
	tier       = flag.String("tier", envOr("VERIF_TIER", "quick"), "quick|thorough")
	only       = flag.String("harness", "", "run only this harness")
	jobs       = flag.Int("jobs", 0, "workers")
	noReplay   = flag.Bool("noreplay", false, "skip native replay (debugging only; never exits 0 on a violation)")
	replayArg  = flag.String("replay", "", "replay one counterexample file natively")
	verbose    = flag.Bool("v", false, "verbose")
	conform    = flag.Bool("conformance", false, "run the translator-validation set only")
)

// outDir is where evidence/ and replays/ are written: the verification
// directory itself, unless VERIF_OUT redirects it (mutation testing runs the
// checks against scratch copies of the repository without touching the
// committed evidence).
func outDir() string {
	if v := os.Getenv("VERIF_OUT"); v != "" {
		return v
	}
	return *verifDir
}

func envOr(k, d string) string {
	if v := os.Getenv(k); v != "" {
		return v
	}
	return d
}

func die(code int, format string, args ...interface{}) {
	fmt.Fprintf(os.Stderr, format+"\n", args...)
	os.Exit(code)
}

func main() {
	flag.Parse()
	if *replayArg != "" {
		os.Exit(replayMain(*replayArg))
	}
	if *prop == "" {
		die(2, "usage: gosym -prop <id> [-tier quick|thorough]")
	}
	os.Exit(run())
}

// overlay maps virtual file names inside the repo to harness sources.
func buildOverlay(pkgDir string) (map[string][]byte, []string, error) {
	src := filepath.Join(*verifDir, "harness", pkgDir)
	ents, err := os.ReadDir(src)
	if err != nil {
		return nil, nil, err
	}
	ov := map[string][]byte{}
	var names []string
	for _, e := range ents {
		if e.IsDir() || !strings.HasSuffix(e.Name(), ".go") {
			continue
		}
		b, err := os.ReadFile(filepath.Join(src, e.Name()))
		if err != nil {
			return nil, nil, err
		}
		ov[filepath.Join(*repoDir, pkgDir, e.Name())] = b
		names = append(names, e.Name())
	}
	return ov, names, nil
}

func loadProgram(pkgDir string, extra map[string][]byte) (*ssa.Program, *ssa.Package, error) {
	ov, _, err := buildOverlay(pkgDir)
	if err != nil {
		return nil, nil, err
	}
	for k, v := range extra {
		ov[k] = v
	}
	cfg := &packages.Config{
		Mode: packages.NeedName | packages.NeedFiles | packages.NeedCompiledGoFiles | packages.NeedImports |
			packages.NeedDeps | packages.NeedTypes | packages.NeedSyntax | packages.NeedTypesInfo | packages.NeedTypesSizes,
		Dir:        *repoDir,
		Overlay:    ov,
		BuildFlags: []string{"-tags=verif"},
		Env:        append(os.Environ(), "GOFLAGS=-mod=mod", "GOPROXY=off", "GOSUMDB=off", "GOTOOLCHAIN=local", "CGO_ENABLED=0"),
	}
	initial, err := packages.Load(cfg, "./"+pkgDir)
	if err != nil {
		return nil, nil, err
	}
	nerr := 0
	packages.Visit(initial, nil, func(p *packages.Package) {
		for _, e := range p.Errors {
			if nerr < 20 {
				fmt.Fprintf(os.Stderr, "load: %s: %v\n", p.PkgPath, e)
			}
			nerr++
		}
	})
	if nerr > 0 {
		return nil, nil, fmt.Errorf("%d package load errors (does /repo build?)", nerr)
	}
	prog, pkgs := ssautil.AllPackages(initial, ssa.InstantiateGenerics)
	prog.Build()
	if len(pkgs) != 1 || pkgs[0] == nil {
		return nil, nil, fmt.Errorf("expected one root package")
	}
	return prog, pkgs[0], nil
}

var initPkgs = []string{
	"github.com/omec-project/upf-epc/pfcpiface",
	"github.com/omec-project/upf-epc/pfcpiface/metrics",
	"github.com/omec-project/upf-epc/internal/p4constants",
	"github.com/omec-project/upf-epc/pkg/utils",
	"github.com/wmnsk/go-pfcp/ie",
	"github.com/wmnsk/go-pfcp/message",
	"github.com/wmnsk/go-pfcp/internal/utils",
	"github.com/deckarep/golang-set",
	"io",
	"strings",
	"strconv",
	"unicode",
	"unicode/utf8",
	"encoding/binary",
	"math/bits",
	"bytes",
	"sort",
	"math",
	"regexp/syntax",
	"regexp",
}

type evidence struct {
	PropertyID string                 `json:"property_id"`
	Tier       string                 `json:"tier"`
	Seed       int64                  `json:"seed"`
	Level      string                 `json:"level"`
	Coverage   map[string]interface{} `json:"coverage"`
	Assumes    []string               `json:"assumptions"`
	WallS      float64                `json:"wall_s"`
	Violations int                    `json:"violations"`
}

func loadProp(id string) (*propCfg, error) {
	regPath := filepath.Join(*verifDir, "harness", "registry.json")
	if v := os.Getenv("VERIF_REGISTRY"); v != "" {
		regPath = v // debugging: an edited copy of the registry (never used by a registered command)
	}
	b, err := os.ReadFile(regPath)
	if err != nil {
		return nil, err
	}
	var all []propCfg
	if err := json.Unmarshal(b, &all); err != nil {
		return nil, fmt.Errorf("registry.json: %v", err)
	}
	for i := range all {
		if all[i].Property == id {
			return &all[i], nil
		}
	}
	return nil, fmt.Errorf("property %s not in registry.json", id)
}

func loadKnown() []knownFinding {
	b, err := os.ReadFile(filepath.Join(*verifDir, "known_findings.json"))
	if err != nil {
		return nil
	}
	var k []knownFinding
	if err := json.Unmarshal(b, &k); err != nil {
		die(2, "known_findings.json: %v", err)
	}
	return k
}

func run() int {
	start := time.Now()
	pc, err := loadProp(*prop)
	if err != nil {
		die(2, "%v", err)
	}
	seed := int64(0)
	fmt.Sscan(os.Getenv("VERIF_SEED"), &seed)

	pkgDir := "pfcpiface"
	extra := genTable(pkgDir)
	if p4, err := genP4Info(pkgDir); err == nil {
		for k, v := range p4 {
			extra[k] = v
		}
	} else {
		die(2, "cannot regenerate the P4Info literal: %v", err)
	}
	prog, pkg, err := loadProgram(pkgDir, extra)
	if err != nil {
		die(2, "cannot load %s: %v", *repoDir, err)
	}
	loadT := time.Since(start)
	if *verbose {
		fmt.Fprintf(os.Stderr, "loaded + SSA in %.1fs\n", loadT.Seconds())
	}

	if old, _ := filepath.Glob(filepath.Join(outDir(), "replays", *prop, "*-"+*tier+"-*.json")); len(old) > 0 && *only == "" {
		for _, f := range old {
			os.Remove(f)
		}
	}
	known := loadKnown()
	var allVio []*interp.Violation
	var inconclusive []string
	totalPaths, totalDec, totalQ, totalPruned := 0, 0, 0, 0
	var solverT time.Duration
	funcs := map[string]int{}
	stubs := map[string]int{}
	var samples []*interp.PathSample
	perHarness := []map[string]interface{}{}
	assertsProved := 0
	assertLabels := map[string]int{}
	var bounds []string
	assumes := append([]string{}, pc.Assumes...)

	for _, h := range pc.Harnesses {
		if *only != "" && h.Name != *only {
			continue
		}
		tc := h.Quick
		if *tier == "thorough" {
			tc = h.Thorough
			if tc.MaxSteps == 0 && tc.MaxPaths == 0 && tc.BudgetS == 0 {
				tc = h.Quick
			}
		}
		if tc.Skip {
			continue
		}
		for k, v := range tc.Vars {
			if err := setHarnessVar(pkg, k, v); err != nil {
				die(2, "%v", err)
			}
		}
		tierVarsByHarness[h.Name] = tc.Vars
		racerOf[h.Name] = h.Racer
		cfg := interp.Config{
			Prog: prog, Pkg: pkg, Harness: h.Name, Jobs: *jobs,
			MaxSteps: tc.MaxSteps, MaxPaths: tc.MaxPaths, TimeoutMS: tc.TimeoutMS,
			SampleMax: 12, Seed: seed, InitPkgs: initPkgs, Verbose: *verbose,
			NoBlockVio: h.NoBlockVio, Vars: tc.Vars, MaxTokens: tc.MaxTokens,
		}
		if tc.BudgetS > 0 {
			cfg.Deadline = time.Now().Add(time.Duration(tc.BudgetS) * time.Second)
		}
		res := interp.Explore(cfg)
		totalPaths += res.Paths
		totalPruned += res.Pruned
		totalDec += res.Decisions
		totalQ += res.Queries
		solverT += res.SolverTime
		for k, v := range res.Funcs {
			if v > funcs[k] {
				funcs[k] = v
			}
		}
		for k, v := range res.Stubs {
			stubs[k] += v
		}
		for k, v := range res.Asserts {
			assertLabels[h.Name+":"+k] += v
			assertsProved += v
		}
		samples = append(samples, res.Samples...)
		allVio = append(allVio, res.Violations...)
		for _, r := range res.Inconclusive {
			inconclusive = append(inconclusive, h.Name+": "+r)
		}
		for _, c := range h.MustCover {
			if res.Covers[c] == 0 && len(res.Inconclusive) == 0 {
				inconclusive = append(inconclusive, fmt.Sprintf("%s: vacuity: cover point %q never reached", h.Name, c))
			}
		}
		if res.Paths == 0 && len(res.Violations) == 0 && len(res.Inconclusive) == 0 {
			inconclusive = append(inconclusive, h.Name+": vacuity: no feasible path completed")
		}
		bounds = append(bounds, h.Name+": "+h.Bounds+fmt.Sprintf(" [tier %s: max_steps/path=%d vars=%v]", *tier, tc.MaxSteps, tc.Vars))
		assumes = append(assumes, h.Assumes...)
		perHarness = append(perHarness, map[string]interface{}{
			"harness": h.Name, "what": h.What, "paths": res.Paths, "pruned_by_assumption": res.Pruned,
			"decisions": res.Decisions, "queries": res.Queries, "solver_s": round2(res.SolverTime.Seconds()),
			"wall_s": round2(res.Wall.Seconds()), "instructions": res.Steps, "covers": res.Covers,
			"max_depth": res.MaxDepth, "violations": len(res.Violations), "inconclusive": res.Inconclusive,
		})
		if *verbose {
			fmt.Fprintf(os.Stderr, "%s: paths=%d pruned=%d decisions=%d queries=%d solver=%.1fs wall=%.1fs vio=%d inconclusive=%d\n",
				h.Name, res.Paths, res.Pruned, res.Decisions, res.Queries, res.SolverTime.Seconds(), res.Wall.Seconds(), len(res.Violations), len(res.Inconclusive))
			for _, r := range res.Inconclusive {
				fmt.Fprintf(os.Stderr, "   inconclusive: %s\n", r)
			}
			if len(res.Sites) > 0 {
				type kv struct {
					k string
					v int
				}
				var l []kv
				for k, v := range res.Sites {
					l = append(l, kv{k, v})
				}
				sort.Slice(l, func(a, b int) bool { return l[a].v > l[b].v })
				for j := 0; j < len(l) && j < 25; j++ {
					fmt.Fprintf(os.Stderr, "   site %7d %s\n", l[j].v, l[j].k)
				}
			}
			for _, v := range res.Violations {
				fmt.Fprintf(os.Stderr, "   candidate: %s %s [%s] tags=%v at %s\n", v.Kind, v.Label, v.Msg, v.Tags, v.Site)
			}
		}
	}

	// ---- native replay of counterexamples and validation of passing samples
	rp := newReplayer(pkgDir)
	defer rp.cleanup()
	validated, mismatches := 0, []string{}
	exit := 0
	var reported []map[string]interface{}
	knownHit := map[string]bool{}
	if len(allVio) > 0 || len(samples) > 0 {
		if *noReplay {
			for _, v := range allVio {
				fmt.Printf("CANDIDATE (not replayed) property=%s %s\n", *prop, v.Signature())
			}
			if len(allVio) > 0 {
				exit = 2
			}
		} else if err := rp.build(); err != nil {
			inconclusive = append(inconclusive, "native replay build failed: "+err.Error())
		} else {
			if len(samples) > 0 {
				v, mm := rp.validate(samples)
				validated = v
				mismatches = mm
				for _, m := range mm {
					inconclusive = append(inconclusive, "ENGINE-MISMATCH on a passing path: "+m)
				}
			}
			for n, v := range allVio {
				path := filepath.Join(outDir(), "replays", *prop, fmt.Sprintf("%s-%s-%d.json", v.Harness, *tier, n))
				ok, detail := rp.replay(v, path)
				rec := map[string]interface{}{"signature": v.Signature(), "kind": v.Kind, "label": v.Label, "msg": v.Msg,
					"site": v.Site, "tags": v.Tags, "sched_trace": v.SchedTrace, "replay": path, "reproduced_natively": ok, "native": detail, "stack": v.Stack}
				reported = append(reported, rec)
				if !ok {
					inconclusive = append(inconclusive, fmt.Sprintf("ENGINE-MISMATCH: %s does not reproduce natively (%s)", v.Signature(), detail))
					continue
				}
				if kf := matchKnown(known, *prop, v); kf != nil && kf.Status == "known" {
					if !knownHit[kf.Signature] {
						knownHit[kf.Signature] = true
						fmt.Printf("KNOWN-FINDING: property=%s %s\n", *prop, kf.What)
					}
					rec["known_finding"] = kf.What
					continue
				}
				fmt.Printf("VIOLATION property=%s replay=%s\n", *prop, path)
				fmt.Printf("  %s %s: %s at %s tags=%v\n", v.Kind, v.Label, v.Msg, v.Site, v.Tags)
				exit = 1
			}
		}
	}
	if len(inconclusive) > 0 && exit == 0 {
		exit = 2
		for _, m := range mismatches {
			_ = m
			exit = 3
		}
	}

	// ---- C16: generated constants (plain precondition, not a solver obligation)
	var constantsNote map[string]interface{}
	if *prop == "C16" && *only == "" {
		ok, note, diffPath := checkGeneratedConstants()
		constantsNote = note
		if !ok {
			fmt.Printf("VIOLATION property=C16 replay=%s\n", diffPath)
			fmt.Printf("  internal/p4constants/p4constants.go differs from what cmd/p4info_code_gen derives from conf/p4/bin/p4info.txt, or the generator is not deterministic\n")
			exit = 1
		}
	}

	// ---- evidence
	var fl []string
	for k, v := range funcs {
		if strings.Contains(k, "upf-epc") && !strings.Contains(k, ".H_") && !strings.Contains(k, ".v") {
			fl = append(fl, fmt.Sprintf("%s (%d instr)", k, v))
		}
	}
	sort.Strings(fl)
	var sl []string
	for k, v := range stubs {
		sl = append(sl, fmt.Sprintf("%s x%d", k, v))
	}
	sort.Strings(sl)
	var sampleOut []interface{}
	for _, s := range samples {
		if len(sampleOut) >= 8 {
			break
		}
		sampleOut = append(sampleOut, s)
	}
	for _, r := range reported {
		sampleOut = append(sampleOut, r)
	}
	if len(sampleOut) == 0 {
		sampleOut = append(sampleOut, map[string]interface{}{"note": "no path completed"})
	}
	ev := evidence{
		PropertyID: *prop, Tier: *tier, Seed: seed, Level: "model_checking",
		Coverage: map[string]interface{}{
			"states":                        totalPaths,
			"transitions":                   totalDec,
			"traces_validated_against_impl": validated,
			"samples":                       sampleOut,
			"exhaustive":                    len(inconclusive) == 0,
			"explanation": "states = feasible paths of the real code executed symbolically to completion (each path stands for every input satisfying its path condition); " +
				"transitions = branch decisions decided by the SMT solver; traces_validated = passing paths whose model was replayed against the natively compiled code with identical observations",
			"functions_encoded":     fl,
			"bounds":                bounds,
			"queries":               totalQ,
			"solver_s":              round2(solverT.Seconds()),
			"solver":                strings.Join(solverName(), " "),
			"assertions_discharged": assertsProved,
			"assertion_labels":      assertLabels,
			"paths_pruned_by_assumptions": totalPruned,
			"stubs":                 sl,
			"harnesses":             perHarness,
			"inconclusive":          inconclusive,
			"violations_reported":   reported,
			"load_ssa_s":            round2(loadT.Seconds()),
		},
		Assumes:    assumes,
		WallS:      round2(time.Since(start).Seconds()),
		Violations: countUnknownVio(reported),
	}
	if totalPaths == 0 {
		ev.Coverage["states"] = 0
	}
	if constantsNote != nil {
		ev.Coverage["generated_constants_precondition"] = constantsNote
	}
	os.MkdirAll(filepath.Join(outDir(), "evidence"), 0o755)
	b, _ := json.MarshalIndent(ev, "", " ")
	if err := os.WriteFile(filepath.Join(outDir(), "evidence", *prop+".json"), b, 0o644); err != nil {
		die(2, "write evidence: %v", err)
	}
	for _, m := range inconclusive {
		fmt.Printf("INCONCLUSIVE property=%s %s\n", *prop, m)
	}
	fmt.Printf("%s %s: paths=%d decisions=%d queries=%d solver=%.1fs validated=%d violations=%d wall=%.1fs exit=%d\n",
		*prop, *tier, totalPaths, totalDec, totalQ, solverT.Seconds(), validated, len(allVio), time.Since(start).Seconds(), exit)
	return exit
}

func countUnknownVio(rep []map[string]interface{}) int {
	n := 0
	for _, r := range rep {
		if _, k := r["known_finding"]; !k {
			if ok, _ := r["reproduced_natively"].(bool); ok {
				n++
			}
		}
	}
	return n
}

func solverName() []string {
	if s := os.Getenv("VERIF_SOLVER"); s != "" {
		return strings.Fields(s)
	}
	out, _ := exec.Command("z3", "--version").Output()
	return []string{strings.TrimSpace(string(out))}
}

func round2(f float64) float64 { return float64(int64(f*100+0.5)) / 100 }

func matchKnown(known []knownFinding, prop string, v *interp.Violation) *knownFinding {
	sig := v.Signature()
	full := sig + "|" + strings.Join(v.Tags, ",")
	for i := range known {
		k := &known[i]
		if k.Property != prop {
			continue
		}
		if k.Signature == sig || k.Signature == full {
			return k
		}
	}
	return nil
}

// setHarnessVar is a placeholder: bound variables of harnesses are package
// variables of the harness files; they are set through Config.Vars by the
// engine right after package initialisation.
func setHarnessVar(pkg *ssa.Package, name, val string) error {
	if _, ok := pkg.Members[name].(*ssa.Global); !ok {
		return fmt.Errorf("harness bound variable %s not found", name)
	}
	return nil
}

// genTable generates the table of harness functions for the native replay.
func genTable(pkgDir string) map[string][]byte {
	src := filepath.Join(*verifDir, "harness", pkgDir)
	ents, _ := os.ReadDir(src)
	var names []string
	for _, e := range ents {
		if !strings.HasSuffix(e.Name(), ".go") {
			continue
		}
		b, _ := os.ReadFile(filepath.Join(src, e.Name()))
		for _, line := range strings.Split(string(b), "\n") {
			if strings.HasPrefix(line, "func H_") {
				n := strings.TrimPrefix(line, "func ")
				if i := strings.IndexByte(n, '('); i > 0 {
					names = append(names, n[:i])
				}
			}
		}
	}
	sort.Strings(names)
	var sb strings.Builder
	sb.WriteString("//go:build verif\n\npackage pfcpiface\n\nvar vHarnesses = map[string]func(){\n")
	for _, n := range names {
		fmt.Fprintf(&sb, "\t%q: %s,\n", n, n)
	}
	sb.WriteString("}\n\nvar vRacers = map[string]func(){\n")
	for _, e := range ents {
		if !strings.HasSuffix(e.Name(), ".go") {
			continue
		}
		b, _ := os.ReadFile(filepath.Join(src, e.Name()))
		for _, line := range strings.Split(string(b), "\n") {
			if strings.HasPrefix(line, "func R_") {
				n := strings.TrimPrefix(line, "func ")
				if i := strings.IndexByte(n, '('); i > 0 {
					fmt.Fprintf(&sb, "\t%q: %s,\n", n[:i], n[:i])
				}
			}
		}
	}
	sb.WriteString("}\n\nvar vVars = map[string]*int{\n")
	for _, e := range ents {
		if !strings.HasSuffix(e.Name(), ".go") {
			continue
		}
		b, _ := os.ReadFile(filepath.Join(src, e.Name()))
		for _, line := range strings.Split(string(b), "\n") {
			if strings.HasPrefix(line, "var v") && strings.Contains(line, " = ") {
				f := strings.Fields(line)
				n := f[1]
				if len(f) >= 4 && len(n) > 1 && n[1] >= 'A' && n[1] <= 'Z' && f[3][0] >= '0' && f[3][0] <= '9' {
					fmt.Fprintf(&sb, "\t%q: &%s,\n", n, n)
				}
			}
		}
	}
	sb.WriteString("}\n")
	return map[string][]byte{filepath.Join(*repoDir, pkgDir, "zz_verif_table.go"): []byte(sb.String())}
}

// checkGeneratedConstants runs cmd/p4info_code_gen twice on the shipped
// P4Info and compares the (gofmt-ed) output with the committed constants.
func checkGeneratedConstants() (bool, map[string]interface{}, string) {
	tmp, err := os.MkdirTemp("", "verif-c16-")
	if err != nil {
		return false, map[string]interface{}{"error": err.Error()}, ""
	}
	defer os.RemoveAll(tmp)
	gen := func(out string) error {
		cmd := exec.Command("go", "run", "./cmd/p4info_code_gen/p4info_code_gen.go", "-output", out, "-p4info", "conf/p4/bin/p4info.txt")
		cmd.Dir = *repoDir
		cmd.Env = append(os.Environ(), "GOFLAGS=-mod=mod", "GOPROXY=off", "GOSUMDB=off", "GOTOOLCHAIN=local")
		b, err := cmd.CombinedOutput()
		if err != nil {
			return fmt.Errorf("%v: %s", err, tail(string(b), 400))
		}
		return nil
	}
	a, b := filepath.Join(tmp, "a.go"), filepath.Join(tmp, "b.go")
	note := map[string]interface{}{"what": "cmd/p4info_code_gen run twice on conf/p4/bin/p4info.txt; outputs compared with each other and (after gofmt) with internal/p4constants/p4constants.go"}
	if err := gen(a); err != nil {
		note["error"] = err.Error()
		return false, note, ""
	}
	if err := gen(b); err != nil {
		note["error"] = err.Error()
		return false, note, ""
	}
	ra, _ := os.ReadFile(a)
	rb, _ := os.ReadFile(b)
	note["deterministic"] = string(ra) == string(rb)
	fa, err := exec.Command("gofmt", a).Output()
	if err != nil {
		note["error"] = "gofmt: " + err.Error()
		return false, note, ""
	}
	committed, _ := os.ReadFile(filepath.Join(*repoDir, "internal", "p4constants", "p4constants.go"))
	note["equals_committed"] = string(fa) == string(committed)
	ok := string(ra) == string(rb) && string(fa) == string(committed)
	diffPath := ""
	if !ok {
		diffPath = filepath.Join(outDir(), "replays", "C16", "generated-constants.go")
		os.MkdirAll(filepath.Dir(diffPath), 0o755)
		os.WriteFile(diffPath, fa, 0o644)
	}
	return ok, note, diffPath
}
