package main

import (
	"bytes"
	"encoding/json"
	"fmt"
	"os"
	"os/exec"
	"path/filepath"
	"strings"
	"time"

	"gosym/interp"
)

// replayer builds one native test binary of the package under test with the
// harness overlay and runs counterexamples / passing samples through it.
type replayer struct {
	pkgDir  string
	tmp     string
	bin     string
	built   bool
	raceBin string
	ovPath  string
}

func newReplayer(pkgDir string) *replayer { return &replayer{pkgDir: pkgDir} }

func (r *replayer) cleanup() {
	if r.tmp != "" {
		os.RemoveAll(r.tmp)
	}
}

func (r *replayer) build() error {
	if r.built {
		return nil
	}
	tmp, err := os.MkdirTemp("", "verif-replay-")
	if err != nil {
		return err
	}
	r.tmp = tmp
	ov, _, err := buildOverlay(r.pkgDir)
	if err != nil {
		return err
	}
	for k, v := range genTable(r.pkgDir) {
		ov[k] = v
	}
	if p4, err := genP4Info(r.pkgDir); err == nil {
		for k, v := range p4 {
			ov[k] = v
		}
	} else {
		return err
	}
	if clk, err := clockOverlay(); err == nil {
		for k, v := range clk {
			ov[k] = v
		}
	} else {
		return fmt.Errorf("clock overlay: %v", err)
	}
	repl := map[string]string{}
	n := 0
	for virt, content := range ov {
		n++
		real := filepath.Join(tmp, fmt.Sprintf("ov%d_%s", n, filepath.Base(virt)))
		if err := os.WriteFile(real, content, 0o644); err != nil {
			return err
		}
		repl[virt] = real
	}
	ovj, _ := json.Marshal(map[string]interface{}{"Replace": repl})
	ovPath := filepath.Join(tmp, "overlay.json")
	if err := os.WriteFile(ovPath, ovj, 0o644); err != nil {
		return err
	}
	r.ovPath = ovPath
	r.bin = filepath.Join(tmp, "replay.test")
	cmd := exec.Command("go", "test", "-c", "-tags", "verif", "-vet=off", "-overlay", ovPath, "-o", r.bin, "./"+r.pkgDir)
	cmd.Dir = *repoDir
	cmd.Env = append(os.Environ(), "GOFLAGS=-mod=mod", "GOPROXY=off", "GOSUMDB=off", "GOTOOLCHAIN=local")
	out, err := cmd.CombinedOutput()
	if err != nil {
		return fmt.Errorf("go test -c: %v\n%s", err, tail(string(out), 2000))
	}
	r.built = true
	return nil
}

// race runs the racer function (two or more goroutines exercising the
// operations of a lock-discipline harness) under the race detector; ok means
// the detector reported a data race.
func (r *replayer) race(racer string) (bool, string) {
	if racer == "" {
		return false, "no racer registered for this harness"
	}
	// the concurrent native run is probabilistic: a positive outcome of a
	// racer stands for the rest of this run; a negative one is retried twice
	if d, ok := raceConfirmed[racer]; ok {
		return true, d
	}
	var ok bool
	var detail string
	for attempt := 0; attempt < 3 && !ok; attempt++ {
		ok, detail = r.raceOnce(racer)
	}
	if ok {
		raceConfirmed[racer] = detail
	}
	return ok, detail
}

var raceConfirmed = map[string]string{}

// stress confirms a schedule-dependent violation of a harness whose native
// counterpart is a stress function (name contains "_stress_"): the scenario
// the engine named (its tags) is run natively with real goroutines, many
// rounds. A panic found by the engine is confirmed by the test process dying
// of the same kind of panic; a blocked schedule by the stress function
// reporting a hang; a failed assertion by the stress function reporting a
// failed check. Data-race reports are NOT taken as confirmation here.
func (r *replayer) stress(rf *replayFile) (bool, string) {
	key := rf.Racer + "|" + rf.Kind + "|" + rf.Label + "|" + strings.Join(rf.Tags, ",")
	if d, ok := raceConfirmed[key]; ok {
		return true, d
	}
	var detail string
	for attempt := 0; attempt < 3; attempt++ {
		out, err := r.runRace(rf.Racer, []string{"VERIF_STRESS_TAGS=" + strings.Join(rf.Tags, ",")})
		if err != "" {
			return false, err
		}
		ok := false
		switch rf.Kind {
		case "panic":
			if k := strings.Index(out, "\npanic: "); k >= 0 && !strings.Contains(out[k:k+40], "VERIF-STRESS-FAIL") {
				line := firstLines(out[k+1:], 1)
				want := ""
				for _, what := range []string{"close of closed channel", "send on closed channel"} {
					if strings.Contains(rf.Msg, what) {
						want = what
					}
				}
				if want == "" || strings.Contains(line, want) {
					ok, detail = true, "native concurrent run of "+rf.Racer+" died of "+line
				} else {
					detail = "native run died of another panic: " + line
				}
			}
		case "block":
			if k := strings.Index(out, "VERIF-STRESS-FAIL"); k >= 0 && strings.Contains(firstLines(out[k:], 1), "hang") {
				ok, detail = true, "native concurrent run of "+rf.Racer+" observed the failure: "+firstLines(out[k:], 1)
			} else if strings.Contains(out, "all goroutines are asleep") || strings.Contains(out, "test timed out") {
				ok, detail = true, "native concurrent run of "+rf.Racer+" hangs"
			}
		default:
			if k := strings.Index(out, "VERIF-STRESS-FAIL"); k >= 0 {
				ok, detail = true, "native concurrent run of "+rf.Racer+" observed the failure: "+firstLines(out[k:], 1)
			}
		}
		if ok {
			raceConfirmed[key] = detail
			return true, detail
		}
		if detail == "" {
			detail = "native concurrent run of " + rf.Racer + " did not show it: " + firstLines(tail(out, 400), 4)
		}
	}
	return false, detail
}

// runRace builds (once) the race-instrumented test binary and runs one racer.
func (r *replayer) runRace(racer string, env []string) (string, string) {
	if r.raceBin == "" {
		bin := filepath.Join(r.tmp, "race.test")
		cmd := exec.Command("go", "test", "-race", "-c", "-tags", "verif", "-vet=off", "-overlay", r.ovPath, "-o", bin, "./"+r.pkgDir)
		cmd.Dir = *repoDir
		cmd.Env = append(os.Environ(), "GOFLAGS=-mod=mod", "GOPROXY=off", "GOSUMDB=off", "GOTOOLCHAIN=local", "CGO_ENABLED=1")
		out, err := cmd.CombinedOutput()
		if err != nil {
			return "", fmt.Sprintf("go test -race -c: %v %s", err, tail(string(out), 800))
		}
		r.raceBin = bin
	}
	cmd := exec.Command(r.raceBin, "-test.run", "^TestVerifRace$", "-test.count=1", "-test.timeout", "150s")
	cmd.Dir = filepath.Join(*repoDir, r.pkgDir)
	cmd.Env = append(append(os.Environ(), "VERIF_RACE="+racer), env...)
	var buf bytes.Buffer
	cmd.Stdout = &buf
	cmd.Stderr = &buf
	_ = cmd.Run()
	return buf.String(), ""
}

func (r *replayer) raceOnce(racer string) (bool, string) {
	if r.raceBin == "" {
		bin := filepath.Join(r.tmp, "race.test")
		cmd := exec.Command("go", "test", "-race", "-c", "-tags", "verif", "-vet=off", "-overlay", r.ovPath, "-o", bin, "./"+r.pkgDir)
		cmd.Dir = *repoDir
		cmd.Env = append(os.Environ(), "GOFLAGS=-mod=mod", "GOPROXY=off", "GOSUMDB=off", "GOTOOLCHAIN=local", "CGO_ENABLED=1")
		out, err := cmd.CombinedOutput()
		if err != nil {
			return false, fmt.Sprintf("go test -race -c: %v %s", err, tail(string(out), 800))
		}
		r.raceBin = bin
	}
	cmd := exec.Command(r.raceBin, "-test.run", "^TestVerifRace$", "-test.count=1", "-test.timeout", "120s")
	cmd.Dir = filepath.Join(*repoDir, r.pkgDir)
	cmd.Env = append(os.Environ(), "VERIF_RACE="+racer)
	var buf bytes.Buffer
	cmd.Stdout = &buf
	cmd.Stderr = &buf
	_ = cmd.Run()
	out := buf.String()
	if strings.Contains(out, "DATA RACE") {
		return true, "race detector: DATA RACE in " + racer + ": " + firstLines(out[strings.Index(out, "DATA RACE"):], 4)
	}
	if k := strings.Index(out, "VERIF-STRESS-FAIL"); k >= 0 {
		return true, "native concurrent run of " + racer + " observed the failure: " + firstLines(out[k:], 2)
	}
	return false, "race detector silent in " + racer + ": " + firstLines(out, 3)
}

func tail(s string, n int) string {
	if len(s) > n {
		return s[len(s)-n:]
	}
	return s
}

type replayFile struct {
	Property string            `json:"property"`
	Harness  string            `json:"harness"`
	Kind     string            `json:"kind"`
	Label    string            `json:"label"`
	Msg      string            `json:"msg"`
	Site     string            `json:"site"`
	Tags     []string          `json:"tags"`
	Inputs   []interp.InputVal `json:"inputs"`
	Vars     map[string]string `json:"vars,omitempty"`
	Tier     string            `json:"tier"`
	Racer    string            `json:"racer,omitempty"`
	Sched    bool              `json:"sched,omitempty"`
}

type nativeResult struct {
	Harness    string               `json:"harness"`
	Kind       string               `json:"kind"`
	Label      string               `json:"label"`
	Msg        string               `json:"msg"`
	Obs        []interp.Observation `json:"obs"`
	Tags       []string             `json:"tags"`
	Covers     []string             `json:"covers"`
	Misaligned string               `json:"misaligned"`
	Stack      string               `json:"stack"`
}

func (r *replayer) runBin(env []string, timeout time.Duration) (string, error) {
	cmd := exec.Command(r.bin, "-test.run", "^TestVerifReplay$", "-test.count=1", "-test.timeout", timeout.String())
	cmd.Dir = filepath.Join(*repoDir, r.pkgDir)
	cmd.Env = append(os.Environ(), env...)
	var buf bytes.Buffer
	cmd.Stdout = &buf
	cmd.Stderr = &buf
	err := cmd.Run()
	return buf.String(), err
}

// replay runs one counterexample natively; ok means the same failure class
// (and assertion label) was observed in the natively compiled code.
func (r *replayer) replay(v *interp.Violation, path string) (bool, string) {
	os.MkdirAll(filepath.Dir(path), 0o755)
	rf := replayFile{Property: *prop, Harness: v.Harness, Kind: v.Kind, Label: v.Label, Msg: v.Msg, Site: v.Site,
		Tags: v.Tags, Inputs: v.Inputs, Tier: *tier, Vars: tierVars(v.Harness), Racer: racerOf[v.Harness], Sched: v.Sched}
	b, _ := json.MarshalIndent(rf, "", " ")
	if err := os.WriteFile(path, b, 0o644); err != nil {
		return false, err.Error()
	}
	return r.replayPath(path, &rf)
}

func (r *replayer) replayPath(path string, rf *replayFile) (bool, string) {
	if rf.Sched && strings.Contains(rf.Racer, "_stress_") {
		return r.stress(rf)
	}
	if rf.Kind == "lock" || rf.Sched {
		// lock-discipline and schedule-dependent violations: confirmed by the
		// harness's concurrent native run (race detector report, or the stress
		// function observing the failure itself)
		ok, detail := r.race(rf.Racer)
		if ok && rf.Sched && rf.Kind != "assert" && rf.Kind != "lock" && strings.Contains(detail, "observed the failure") {
			// a blocked or panicking schedule is not confirmed by the stress
			// function seeing some other failure
			return false, "schedule-dependent " + rf.Kind + " not confirmed: " + detail
		}
		return ok, detail
	}
	out, err := r.runBin([]string{"VERIF_REPLAY=" + path}, 60*time.Second)
	var nr nativeResult
	got := false
	for _, line := range strings.Split(out, "\n") {
		if strings.HasPrefix(line, "VERIF-REPLAY-RESULT ") {
			if json.Unmarshal([]byte(strings.TrimPrefix(line, "VERIF-REPLAY-RESULT ")), &nr) == nil {
				got = true
			}
		}
	}
	if !got {
		// the process died: exit (Fatal), deadlock, timeout or crash in another goroutine
		kind := "crash"
		switch {
		case strings.Contains(out, "all goroutines are asleep"), strings.Contains(out, "test timed out"):
			kind = "block"
		case strings.Contains(out, "panic:"):
			kind = "panic"
		case err != nil:
			kind = "exit"
		}
		detail := kind + ": " + firstLines(out, 6)
		switch rf.Kind {
		case "exit":
			return kind == "exit", detail
		case "block":
			return kind == "block", detail
		case "panic":
			return kind == "panic", detail
		}
		return false, detail
	}
	detail := fmt.Sprintf("native outcome kind=%s label=%s msg=%s", nr.Kind, nr.Label, firstLines(nr.Msg, 1))
	if nr.Misaligned != "" {
		detail += " misaligned=" + nr.Misaligned
	}
	switch rf.Kind {
	case "assert":
		if nr.Kind == "assert" && nr.Label != rf.Label {
			// the natively compiled code fails an assertion of the same harness on
			// the same inputs, but not the one the engine named (the engine's model
			// of an unordered container - a set's Pop, a map's iteration - picks one
			// order, the native run another): the violation reproduces
			return true, detail + " (the native run fails a different assertion of the same harness: " + nr.Label + ")"
		}
		return nr.Kind == "assert", detail
	case "panic":
		return nr.Kind == "panic", detail
	case "lock":
		return false, detail + " (lock-discipline violations are replayed by the race test)"
	}
	return false, detail
}

func firstLines(s string, n int) string {
	lines := strings.Split(strings.TrimSpace(s), "\n")
	if len(lines) > n {
		lines = lines[:n]
	}
	return strings.Join(lines, " | ")
}

// validate replays passing samples natively and compares the observations.
func (r *replayer) validate(samples []*interp.PathSample) (int, []string) {
	var batch []replayFile
	for _, s := range samples {
		batch = append(batch, replayFile{Harness: s.Harness, Inputs: s.Inputs, Vars: tierVars(s.Harness)})
	}
	bp := filepath.Join(r.tmp, "batch.json")
	op := filepath.Join(r.tmp, "batch.out.json")
	b, _ := json.Marshal(batch)
	os.WriteFile(bp, b, 0o644)
	out, err := r.runBin([]string{"VERIF_REPLAY_BATCH=" + bp, "VERIF_REPLAY_OUT=" + op}, 300*time.Second)
	raw, rerr := os.ReadFile(op)
	if rerr != nil {
		return 0, []string{fmt.Sprintf("batch replay produced no output (%v): %s", err, firstLines(out, 8))}
	}
	var res []nativeResult
	if err := json.Unmarshal(raw, &res); err != nil {
		return 0, []string{"batch replay output unreadable: " + err.Error()}
	}
	ok := 0
	var mm []string
	for k, s := range samples {
		if k >= len(res) {
			mm = append(mm, "missing native result")
			break
		}
		n := res[k]
		if n.Kind != "none" {
			mm = append(mm, fmt.Sprintf("%s: engine path passes, native run ends with %s %s %s (inputs %s)", s.Harness, n.Kind, n.Label, firstLines(n.Msg, 1), inputsBrief(s.Inputs)))
			continue
		}
		if n.Misaligned != "" {
			mm = append(mm, fmt.Sprintf("%s: input vector misaligned: %s", s.Harness, n.Misaligned))
			continue
		}
		if d := diffObs(s.Obs, n.Obs); d != "" {
			mm = append(mm, fmt.Sprintf("%s: observations differ: %s (inputs %s)", s.Harness, d, inputsBrief(s.Inputs)))
			continue
		}
		ok++
	}
	return ok, mm
}

func inputsBrief(in []interp.InputVal) string {
	var p []string
	for _, i := range in {
		if i.IsStr {
			p = append(p, fmt.Sprintf("%s=%q", i.Name, i.Str))
		} else {
			p = append(p, fmt.Sprintf("%s=%d", i.Name, i.Val))
		}
		if len(p) > 24 {
			p = append(p, "...")
			break
		}
	}
	return strings.Join(p, " ")
}

func diffObs(a, b []interp.Observation) string {
	if len(a) != len(b) {
		return fmt.Sprintf("engine made %d observations, native %d", len(a), len(b))
	}
	for k := range a {
		if a[k].Label != b[k].Label {
			return fmt.Sprintf("#%d label %s vs %s", k, a[k].Label, b[k].Label)
		}
		if a[k].Val != b[k].Val && !strings.Contains(a[k].Val, "?") {
			return fmt.Sprintf("%s: engine %s native %s", a[k].Label, a[k].Val, b[k].Val)
		}
	}
	return ""
}

var tierVarsByHarness = map[string]map[string]string{}
var racerOf = map[string]string{}

func tierVars(h string) map[string]string { return tierVarsByHarness[h] }

// replayMain implements `gosym -replay <file>`: exit 1 if the recorded
// failure reproduces against the current tree, 0 if it does not.
func replayMain(path string) int {
	raw, err := os.ReadFile(path)
	if err != nil {
		die(2, "%v", err)
	}
	var rf replayFile
	if err := json.Unmarshal(raw, &rf); err != nil {
		die(2, "%v", err)
	}
	*prop = rf.Property
	r := newReplayer("pfcpiface")
	defer r.cleanup()
	if err := r.build(); err != nil {
		die(2, "%v", err)
	}
	ok, detail := r.replayPath(path, &rf)
	fmt.Printf("replay %s: expected %s %s; %s\n", path, rf.Kind, rf.Label, detail)
	if ok {
		fmt.Printf("VIOLATION property=%s replay=%s\n", rf.Property, path)
		return 1
	}
	fmt.Println("does not reproduce on the current tree")
	return 0
}

// clockOverlay patches the standard library's time package (in the overlay of
// the NATIVE replay build only) so that Now, Since and Until consult a hook
// when it is set. The harness library sets the hook to replay the clock
// readings of the engine's model (inputs clk_N) for calls made directly by
// repository code; every other caller keeps the real clock.
func clockOverlay() (map[string][]byte, error) {
	out, err := exec.Command("go", "env", "GOROOT").Output()
	if err != nil {
		return nil, err
	}
	goroot := strings.TrimSpace(string(out))
	path := filepath.Join(goroot, "src", "time", "time.go")
	raw, err := os.ReadFile(path)
	if err != nil {
		return nil, err
	}
	src := string(raw)
	patch := func(sig, body string) error {
		if !strings.Contains(src, sig) {
			return fmt.Errorf("time.go: %q not found", sig)
		}
		src = strings.Replace(src, sig, sig+body, 1)
		return nil
	}
	if err := patch("func Now() Time {\n", "\tif verifNow != nil {\n\t\tif t, ok := verifNow(); ok {\n\t\t\treturn t\n\t\t}\n\t}\n"); err != nil {
		return nil, err
	}
	if err := patch("func Since(t Time) Duration {\n", "\tif verifNow != nil {\n\t\tif now, ok := verifNow(); ok {\n\t\t\treturn now.Sub(t)\n\t\t}\n\t}\n"); err != nil {
		return nil, err
	}
	if err := patch("func Until(t Time) Duration {\n", "\tif verifNow != nil {\n\t\tif now, ok := verifNow(); ok {\n\t\t\treturn t.Sub(now)\n\t\t}\n\t}\n"); err != nil {
		return nil, err
	}
	hook := "package time\n\nimport _ \"unsafe\"\n\n// verifNow, when set and answering ok, replaces the clock read by Now, Since and Until.\n//\n//go:linkname verifNow\nvar verifNow func() (Time, bool)\n"
	return map[string][]byte{
		path: []byte(src),
		filepath.Join(goroot, "src", "time", "zz_verif_hook.go"): []byte(hook),
	}, nil
}
