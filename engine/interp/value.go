// Copyright 2013 The Go Authors. All rights reserved.
// Use of this source code is governed by a BSD-style
// license that can be found in the LICENSE file.
//
// Forked from golang.org/x/tools/go/ssa/interp (v0.29.0) and extended with
// symbolic scalars, engine-level maps and channels, and an undo trail.

package interp

// Values
//
// All interpreter values are "boxed" in the empty interface, value.
// The range of possible dynamic types within value are:
//
// - bool
// - numbers (all built-in int/float/complex types are distinguished)
// - string
// - sym    --- symbolic bool/integer (an SMT term)
// - symstr --- symbolic string (an atom of the uninterpreted sort Str)
// - *omap  --- maps (insertion ordered, symbolic keys allowed)
// - *chanv --- channels (engine objects)
// - []value --- slices
// - iface --- interfaces.
// - structure --- structs.  Fields are ordered and accessed by numeric indices.
// - array --- arrays.
// - *value --- pointers.  Careful: *value is a distinct type from *array etc.
// - *ssa.Function \
//   *ssa.Builtin   } --- functions.  A nil 'func' is always of type *ssa.Function.
//   *closure      /
// - tuple --- as returned by Return, Next, "value,ok" modes, etc.
// - iter --- iterators from 'range' over map or string.
// - bad --- a poison pill for locals that have gone out of scope.
// - **deferred -- the address of a frame's defer stack for a Defer._Stack.
// - opaque --- an engine-made object standing for something that is not modelled
//
// Note that nil is not on this list.

import (
	"bytes"
	"fmt"
	"go/token"
	"go/types"
	"io"
	"strings"
	"unsafe"

	"golang.org/x/tools/go/ssa"
)

type value interface{}

type tuple []value

type array []value

type iface struct {
	t types.Type // never an "untyped" type
	v value
}

type structure []value

// For map, array, *array, slice, string or channel.
type iter interface {
	// next returns a Tuple (key, value, ok).
	// key and value are unaliased, e.g. copies of the sequence element.
	next() tuple
}

type closure struct {
	Fn  *ssa.Function
	Env []value
}

type bad struct{}

// opaque stands for an object of a type the engine does not model (a
// context, a logger, a gRPC connection ...). It can be passed around and
// compared by identity; any operation on it is unsupported.
type opaque struct {
	what string
}

// eqv returns the comparison x == y for type t as a value: a bool, or a
// symbolic Bool if a symbolic scalar takes part in the comparison.
func eqv(t types.Type, x, y value) value {
	switch x := x.(type) {
	case sym, symstr, symf:
		return symBinopEq(x, y)
	case bool:
		if _, ok := y.(sym); ok {
			return symBinopEq(x, y)
		}
		return x == y.(bool)
	case int:
		if _, ok := y.(sym); ok {
			return symBinopEq(x, y)
		}
		return x == y.(int)
	case int8:
		if _, ok := y.(sym); ok {
			return symBinopEq(x, y)
		}
		return x == y.(int8)
	case int16:
		if _, ok := y.(sym); ok {
			return symBinopEq(x, y)
		}
		return x == y.(int16)
	case int32:
		if _, ok := y.(sym); ok {
			return symBinopEq(x, y)
		}
		return x == y.(int32)
	case int64:
		if _, ok := y.(sym); ok {
			return symBinopEq(x, y)
		}
		return x == y.(int64)
	case uint:
		if _, ok := y.(sym); ok {
			return symBinopEq(x, y)
		}
		return x == y.(uint)
	case uint8:
		if _, ok := y.(sym); ok {
			return symBinopEq(x, y)
		}
		return x == y.(uint8)
	case uint16:
		if _, ok := y.(sym); ok {
			return symBinopEq(x, y)
		}
		return x == y.(uint16)
	case uint32:
		if _, ok := y.(sym); ok {
			return symBinopEq(x, y)
		}
		return x == y.(uint32)
	case uint64:
		if _, ok := y.(sym); ok {
			return symBinopEq(x, y)
		}
		return x == y.(uint64)
	case uintptr:
		if _, ok := y.(sym); ok {
			return symBinopEq(x, y)
		}
		return x == y.(uintptr)
	case float32:
		return x == y.(float32)
	case float64:
		if _, ok := y.(symf); ok {
			return symBinopEq(x, y)
		}
		return x == y.(float64)
	case complex64:
		return x == y.(complex64)
	case complex128:
		return x == y.(complex128)
	case string:
		if _, ok := y.(symstr); ok {
			return symBinopEq(x, y)
		}
		return x == y.(string)
	case *value:
		if yp, ok := y.(*value); ok {
			return x == yp
		}
		if yu, ok := y.(unsafe.Pointer); ok {
			return x == nil && yu == nil
		}
		return false
	case *chanv:
		return x == y.(*chanv)
	case *opaque:
		yo, ok := y.(*opaque)
		return ok && x == yo
	case unsafe.Pointer:
		if yp, ok := y.(*value); ok {
			return x == nil && yp == nil
		}
		return x == y.(unsafe.Pointer)
	case structure:
		xs, ys := x, y.(structure)
		var st *types.Struct
		if t != nil {
			st, _ = t.Underlying().(*types.Struct)
		}
		var acc value = true
		for i := range xs {
			if st != nil && st.Field(i).Name() == "_" {
				continue
			}
			var ft types.Type
			if st != nil {
				ft = st.Field(i).Type()
			}
			acc = andv(acc, eqv(ft, xs[i], ys[i]))
			if b, ok := acc.(bool); ok && !b {
				return false
			}
		}
		return acc
	case array:
		xs, ys := x, y.(array)
		var et types.Type
		if t != nil {
			if at, ok := t.Underlying().(*types.Array); ok {
				et = at.Elem()
			}
		}
		var acc value = true
		for i := range xs {
			acc = andv(acc, eqv(et, xs[i], ys[i]))
			if b, ok := acc.(bool); ok && !b {
				return false
			}
		}
		return acc
	case iface:
		yi := y.(iface)
		if x.t == nil || yi.t == nil {
			return x.t == nil && yi.t == nil
		}
		if !types.Identical(x.t, yi.t) {
			return false
		}
		return eqv(x.t, x.v, yi.v)
	}

	// Since map, func and slice don't support comparison, this
	// case is only reachable if one of x or y is literally nil
	// (handled in eqnil) or via interface{} values.
	panic(runtimePanic{fmt.Sprintf("runtime error: comparing uncomparable type %s", t)})
}

func symBinopEq(x, y value) value {
	return symBinop(token.EQL, x, y)
}

// andv is the conjunction of two bool-or-sym values.
func andv(a, b value) value {
	if ab, ok := a.(bool); ok {
		if !ab {
			return false
		}
		return b
	}
	if bb, ok := b.(bool); ok {
		if !bb {
			return false
		}
		return a
	}
	return mkSym(types.Bool, mkAnd(a.(sym).e, b.(sym).e))
}

func notv(a value) value {
	if ab, ok := a.(bool); ok {
		return !ab
	}
	return mkSym(types.Bool, mkNot(a.(sym).e))
}

// keyString returns a canonical encoding of a concrete, comparable value; ok
// is false if the value contains a symbolic scalar.
func keyString(v value) (string, bool) {
	var sb strings.Builder
	if !writeKey(&sb, v) {
		return "", false
	}
	return sb.String(), true
}

func writeKey(sb *strings.Builder, v value) bool {
	switch x := v.(type) {
	case sym, symstr:
		return false
	case bool, int, int8, int16, int32, int64, uint, uint8, uint16, uint32, uint64, uintptr, float32, float64, complex64, complex128:
		// ints of one map always have the same dynamic type, so %v is canonical
		fmt.Fprintf(sb, "%v|", x)
	case string:
		fmt.Fprintf(sb, "%d:%s|", len(x), x)
	case *value:
		fmt.Fprintf(sb, "p%p|", x)
	case *chanv:
		fmt.Fprintf(sb, "c%p|", x)
	case *opaque:
		fmt.Fprintf(sb, "o%p|", x)
	case unsafe.Pointer:
		fmt.Fprintf(sb, "u%p|", x)
	case structure:
		sb.WriteByte('{')
		for _, f := range x {
			if !writeKey(sb, f) {
				return false
			}
		}
		sb.WriteByte('}')
	case array:
		sb.WriteByte('[')
		for _, f := range x {
			if !writeKey(sb, f) {
				return false
			}
		}
		sb.WriteByte(']')
	case iface:
		if x.t == nil {
			sb.WriteString("nil|")
			return true
		}
		fmt.Fprintf(sb, "i(%s)", x.t.String())
		return writeKey(sb, x.v)
	default:
		panic(runtimePanic{fmt.Sprintf("runtime error: hash of unhashable type %T", v)})
	}
	return true
}

// reflect.Value struct values don't have a fixed shape, since the
// payload can be a scalar or an aggregate depending on the instance.
// So store (and load) can't simply use recursion over the shape of the
// rhs value, or the lhs, to copy the value; we need the static type
// information.

// load returns the value of type T in *addr.
func load(T types.Type, addr *value) value {
	switch T := T.Underlying().(type) {
	case *types.Struct:
		v := (*addr).(structure)
		a := make(structure, len(v))
		for i := range a {
			a[i] = load(T.Field(i).Type(), &v[i])
		}
		return a
	case *types.Array:
		v := (*addr).(array)
		a := make(array, len(v))
		for i := range a {
			a[i] = load(T.Elem(), &v[i])
		}
		return a
	default:
		return *addr
	}
}

// store stores value v of type T into *addr, logging the old content on the
// undo trail of the interpreter.
func (i *interpreter) store(T types.Type, addr *value, v value) {
	switch T := T.Underlying().(type) {
	case *types.Struct:
		lhs := (*addr).(structure)
		rhs := v.(structure)
		for j := range lhs {
			i.store(T.Field(j).Type(), &lhs[j], rhs[j])
		}
	case *types.Array:
		lhs := (*addr).(array)
		rhs := v.(array)
		for j := range lhs {
			i.store(T.Elem(), &lhs[j], rhs[j])
		}
	default:
		i.set(addr, v)
	}
}

// set is the single primitive that overwrites a memory cell.
func (i *interpreter) set(addr *value, v value) {
	if i.trailOn {
		i.trail = append(i.trail, undo{addr: addr, old: *addr})
	}
	*addr = v
}

type undo struct {
	addr *value
	old  value
	fn   func()
}

func (i *interpreter) logUndo(fn func()) {
	if i.trailOn {
		i.trail = append(i.trail, undo{fn: fn})
	}
}

func (i *interpreter) rollback() {
	for j := len(i.trail) - 1; j >= 0; j-- {
		u := &i.trail[j]
		if u.fn != nil {
			u.fn()
		} else {
			*u.addr = u.old
		}
		i.trail[j] = undo{}
	}
	i.trail = i.trail[:0]
}

// Prints in the style of built-in println.
func writeValue(buf *bytes.Buffer, v value) {
	switch v := v.(type) {
	case nil, bool, int, int8, int16, int32, int64, uint, uint8, uint16, uint32, uint64, uintptr, float32, float64, complex64, complex128, string:
		fmt.Fprintf(buf, "%v", v)

	case sym:
		fmt.Fprintf(buf, "<sym %v>", v.k)

	case symstr:
		buf.WriteString("<symstr>")

	case *omap:
		buf.WriteString("map[")
		if v != nil {
			sep := ""
			for _, e := range v.ents {
				buf.WriteString(sep)
				sep = " "
				writeValue(buf, e.key)
				buf.WriteString(":")
				writeValue(buf, e.val)
			}
		}
		buf.WriteString("]")

	case *chanv:
		fmt.Fprintf(buf, "%p", v) // (an address)

	case *value:
		if v == nil {
			buf.WriteString("<nil>")
		} else {
			fmt.Fprintf(buf, "%p", v)
		}

	case iface:
		fmt.Fprintf(buf, "(%s, ", v.t)
		writeValue(buf, v.v)
		buf.WriteString(")")

	case structure:
		buf.WriteString("{")
		for i, e := range v {
			if i > 0 {
				buf.WriteString(" ")
			}
			writeValue(buf, e)
		}
		buf.WriteString("}")

	case array:
		buf.WriteString("[")
		for i, e := range v {
			if i > 0 {
				buf.WriteString(" ")
			}
			writeValue(buf, e)
		}
		buf.WriteString("]")

	case []value:
		buf.WriteString("[")
		for i, e := range v {
			if i > 0 {
				buf.WriteString(" ")
			}
			writeValue(buf, e)
		}
		buf.WriteString("]")

	case *ssa.Function, *ssa.Builtin, *closure:
		fmt.Fprintf(buf, "%p", v) // (an address)

	case tuple:
		// Unreachable in well-formed Go programs
		buf.WriteString("(")
		for i, e := range v {
			if i > 0 {
				buf.WriteString(", ")
			}
			writeValue(buf, e)
		}
		buf.WriteString(")")

	default:
		fmt.Fprintf(buf, "<%T>", v)
	}
}

// Implements printing of Go values in the style of built-in println.
func toString(v value) string {
	var b bytes.Buffer
	writeValue(&b, v)
	return b.String()
}

// ------------------------------------------------------------------------
// Iterators

type stringIter struct {
	*strings.Reader
	i int
}

func (it *stringIter) next() tuple {
	okv := make(tuple, 3)
	ch, n, err := it.ReadRune()
	ok := err != io.EOF
	okv[0] = ok
	if ok {
		okv[1] = it.i
		okv[2] = ch
	}
	it.i += n
	return okv
}

// mapIter iterates over a snapshot of the entries taken when the range
// statement started; entries deleted meanwhile are skipped (as Go does).
// The order is insertion order: deterministic, which replay-based path
// exploration needs. (Go's order is unspecified; stated as a bound.)
type mapIter struct {
	ents []*ment
	pos  int
}

func (it *mapIter) next() tuple {
	for it.pos < len(it.ents) {
		e := it.ents[it.pos]
		it.pos++
		if e.dead {
			continue
		}
		return []value{true, e.key, e.val}
	}
	return []value{false, nil, nil}
}
