// Copyright 2013 The Go Authors. All rights reserved.
// Use of this source code is governed by a BSD-style
// license that can be found in the LICENSE file.

package interp

// Emulated functions that cannot be interpreted because they have no Go body.

import (
	"math"
)

func ext۰math۰Float64frombits(fr *frame, args []value) value {
	return math.Float64frombits(args[0].(uint64))
}

func ext۰math۰Float64bits(fr *frame, args []value) value {
	return math.Float64bits(args[0].(float64))
}

func ext۰math۰Float32frombits(fr *frame, args []value) value {
	return math.Float32frombits(args[0].(uint32))
}

func ext۰math۰Float32bits(fr *frame, args []value) value {
	return math.Float32bits(args[0].(float32))
}
