// Models of package time. The clock is a symbolic, strictly increasing
// monotonic reading (see DESIGN.md §3.8).

package interp

import (
	"fmt"
	"go/token"
	"go/types"
	"strings"
	"time"

	"golang.org/x/tools/go/ssa"
)

const hasMonotonic = uint64(1) << 63

func (i *interpreter) clockRead() value {
	w := i.w
	if w.clockStep > 0 {
		// the harness asked for a concrete clock: instants step apart (vConcreteClock)
		w.nclk++
		return int64(w.nclk) * w.clockStep
	}
	t := w.newInput(fmt.Sprintf("clk_%d", w.nclk), 64)
	w.nclk++
	if w.clock == nil {
		w.assume(mkBin(OpSle, mkConst(64, 1), t))
	} else {
		w.assume(mkBin(OpSlt, w.clock, t))
	}
	w.assume(mkBin(OpSlt, t, mkConst(64, 1<<62)))
	w.clock = t
	return sym{types.Int64, t}
}

func (i *interpreter) timeNow() value {
	return structure{hasMonotonic, i.clockRead(), (*value)(nil)}
}

func registerTimeStubs() {
	globalModels["time.utcLoc"] = func(i *interpreter, g *ssa.Global) value {
		st := zero(mustDeref(g.Type())).(structure)
		st[0] = "UTC"
		return st
	}
	globalModels["time.UTC"] = func(i *interpreter, g *ssa.Global) value {
		return i.global(g.Pkg.Var("utcLoc"))
	}
	globalModels["time.Local"] = func(i *interpreter, g *ssa.Global) value {
		// the local zone is modelled as UTC (no zone database is read)
		return i.global(g.Pkg.Var("utcLoc"))
	}
	// The clock is symbolic for reads made directly by repository code; every
	// other caller (library code the native replay runs on the real clock) gets
	// a fixed instant. The native replay makes the same distinction.
	repoCaller := func(fr *frame) bool {
		c := fr.caller
		return c != nil && c.fn != nil && c.fn.Pkg != nil && strings.HasPrefix(c.fn.Pkg.Pkg.Path(), "github.com/omec-project/upf-epc")
	}
	fixed := func() value { return structure{hasMonotonic, int64(1), (*value)(nil)} }
	specials["time.Now"] = func(i *interpreter, fr *frame, fn *ssa.Function, args []value) value {
		if !repoCaller(fr) {
			return fixed()
		}
		return i.timeNow()
	}
	// Wall-clock views of a model instant: the native replay anchors the symbolic
	// reading at 2023-11-14T22:13:20Z (vClockBase in the harness library), so
	// UnixNano = base + reading and the coarser views divide it.
	const clockBaseNs = int64(1700000000) * 1000000000
	unixView := func(div int64) func(i *interpreter, fr *frame, fn *ssa.Function, args []value) value {
		return func(i *interpreter, fr *frame, fn *ssa.Function, args []value) value {
			t := args[0].(structure)
			if w, ok := t[0].(uint64); !ok || w != hasMonotonic {
				return callSSAbody(i, fr.caller, fn, args, nil)
			}
			if _, isSym := t[1].(sym); !isSym {
				return callSSAbody(i, fr.caller, fn, args, nil)
			}
			ns := binop(tokenADD, nil, t[1], int64(clockBaseNs))
			if div == 1 {
				return ns
			}
			return binop(token.QUO, nil, ns, div)
		}
	}
	specials["(time.Time).UnixNano"] = unixView(1)
	specials["(time.Time).UnixMicro"] = unixView(1000)
	specials["(time.Time).UnixMilli"] = unixView(1000000)
	specials["(time.Time).Unix"] = unixView(1000000000)
	specials["time.Since"] = func(i *interpreter, fr *frame, fn *ssa.Function, args []value) value {
		t := args[0].(structure)
		if !repoCaller(fr) {
			return int64(1)
		}
		now := i.clockRead()
		return binop(tokenSUB, nil, now, t[1])
	}
	specials["time.Until"] = func(i *interpreter, fr *frame, fn *ssa.Function, args []value) value {
		t := args[0].(structure)
		if !repoCaller(fr) {
			return int64(1)
		}
		now := i.clockRead()
		return binop(tokenSUB, nil, t[1], now)
	}
	specials["time.After"] = func(i *interpreter, fr *frame, fn *ssa.Function, args []value) value {
		return &chanv{cap: 1, timer: true, name: "time.After"}
	}
	// time.NewTimer: a *Timer whose channel C is a timer channel of the model (it
	// fires when no goroutine can make progress otherwise). Stop disarms it.
	specials["time.NewTimer"] = func(i *interpreter, fr *frame, fn *ssa.Function, args []value) value {
		tt := fn.Signature.Results().At(0).Type().(*types.Pointer).Elem()
		st := zero(tt).(structure)
		st[0] = &chanv{cap: 1, timer: true, name: "time.NewTimer"}
		cell := new(value)
		*cell = st
		return cell
	}
	// time.NewTicker: as NewTimer (the model has no elapsed time: the channel fires
	// whenever no goroutine can make progress otherwise; the period is not
	// modelled - a harness that cares overrides Reset and records its argument)
	specials["time.NewTicker"] = func(i *interpreter, fr *frame, fn *ssa.Function, args []value) value {
		tt := fn.Signature.Results().At(0).Type().(*types.Pointer).Elem()
		st := zero(tt).(structure)
		st[0] = &chanv{cap: 1, timer: true, name: "time.NewTicker"}
		cell := new(value)
		*cell = st
		return cell
	}
	specials["(*time.Ticker).Stop"] = func(i *interpreter, fr *frame, fn *ssa.Function, args []value) value {
		p := args[0].(*value)
		if c, _ := (*p).(structure)[0].(*chanv); c != nil && c.timer {
			i.logUndo(func() { c.timer = true })
			c.timer = false
		}
		return nil
	}
	specials["(*time.Ticker).Reset"] = func(i *interpreter, fr *frame, fn *ssa.Function, args []value) value {
		p := args[0].(*value)
		if c, _ := (*p).(structure)[0].(*chanv); c != nil && !c.timer {
			i.logUndo(func() { c.timer = false })
			c.timer = true
		}
		return nil
	}
	specials["(*time.Timer).Stop"] = func(i *interpreter, fr *frame, fn *ssa.Function, args []value) value {
		p := args[0].(*value)
		c, _ := (*p).(structure)[0].(*chanv)
		if c == nil || !c.timer {
			return false
		}
		i.logUndo(func() { c.timer = true })
		c.timer = false
		return true
	}
	specials["(*time.Timer).Reset"] = func(i *interpreter, fr *frame, fn *ssa.Function, args []value) value {
		p := args[0].(*value)
		c, _ := (*p).(structure)[0].(*chanv)
		if c == nil {
			return false
		}
		was := c.timer
		i.logUndo(func() { c.timer = was })
		c.timer = true
		return was
	}
	specials["time.ParseDuration"] = func(i *interpreter, fr *frame, fn *ssa.Function, args []value) value {
		errT := fn.Signature.Results().At(1).Type()
		switch s := args[0].(type) {
		case string:
			d, err := time.ParseDuration(s)
			if err != nil {
				return tuple{int64(0), i.opaqueError("time: invalid duration")}
			}
			return tuple{int64(d), zero(errT)}
		case symstr:
			ok := mkUF("parsedur_ok", 0, s.e)
			val := mkUF("parsedur_val", 64, s.e)
			i.w.noteStrFact("parsedur", s.e, ok, val)
			if i.w.decide(ok) {
				return tuple{mkSym(types.Int64, val), zero(errT)}
			}
			return tuple{int64(0), i.opaqueError("time: invalid duration")}
		}
		panic("time.ParseDuration: bad argument")
	}
	for _, n := range []string{"Seconds", "Minutes", "Hours"} {
		name := "(time.Duration)." + n
		div := map[string]float64{"Seconds": 1e9, "Minutes": 60e9, "Hours": 3600e9}[n]
		specials[name] = func(i *interpreter, fr *frame, fn *ssa.Function, args []value) value {
			if d, ok := args[0].(int64); ok {
				return float64(d) / div
			}
			return symf{args[0].(sym).e}
		}
	}
	specials["(time.Duration).String"] = func(i *interpreter, fr *frame, fn *ssa.Function, args []value) value {
		if d, ok := args[0].(int64); ok {
			return time.Duration(d).String()
		}
		return symstr{mkUF("durstr", wStr, args[0].(sym).e)}
	}
}

// opaqueError returns a fresh *errors.errorString.
func (i *interpreter) opaqueError(msg string) value {
	errPkg := i.prog.ImportedPackage("errors")
	et := errPkg.Type("errorString").Type()
	var cell value = structure{msg}
	return iface{t: types.NewPointer(et), v: &cell}
}
