// Harness intrinsics: the v* functions of /verif/harness/.../zz_verif_lib.go.
// Natively they read a replay vector; under the engine they are intercepted
// here.

package interp

import (
	"fmt"
	"go/token"
	"go/types"
	"strings"
	"sync"

	"golang.org/x/tools/go/ssa"
	"golang.org/x/tools/go/ssa/ssautil"
)

const (
	tokenADD = token.ADD
	tokenSUB = token.SUB
)

var intrinsics map[string]specialFn

func init() {
	intrinsics = map[string]specialFn{
		"vU8":    func(i *interpreter, fr *frame, fn *ssa.Function, a []value) value { return i.input(a[0], types.Uint8) },
		"vU16":   func(i *interpreter, fr *frame, fn *ssa.Function, a []value) value { return i.input(a[0], types.Uint16) },
		"vU32":   func(i *interpreter, fr *frame, fn *ssa.Function, a []value) value { return i.input(a[0], types.Uint32) },
		"vU64":   func(i *interpreter, fr *frame, fn *ssa.Function, a []value) value { return i.input(a[0], types.Uint64) },
		"vInt":   func(i *interpreter, fr *frame, fn *ssa.Function, a []value) value { return i.input(a[0], types.Int) },
		"vBool":  func(i *interpreter, fr *frame, fn *ssa.Function, a []value) value { return i.input(a[0], types.Bool) },
		"vStr": func(i *interpreter, fr *frame, fn *ssa.Function, a []value) value {
			t := i.w.newInput(a[0].(string), wStr)
			return symstr{t}
		},
		"vBytes": func(i *interpreter, fr *frame, fn *ssa.Function, a []value) value {
			n := int(asInt64(a[1]))
			out := make([]value, n)
			for j := range out {
				out[j] = i.input(fmt.Sprintf("%s_%d", a[0].(string), j), types.Uint8)
			}
			return out
		},
		"vChoose": func(i *interpreter, fr *frame, fn *ssa.Function, a []value) value {
			n := asInt64(a[1])
			if n <= 0 {
				panic(pathAbort{"vChoose(0)"})
			}
			if n == 1 {
				// still consume an input so that native replay stays aligned
				t := i.w.newInput(a[0].(string), 64)
				i.w.assume(mkEq(t, mkConst(64, 0)))
				return 0
			}
			t := i.w.newInput(a[0].(string), 64)
			i.w.assume(mkBin(OpUlt, t, mkConst(64, uint64(n))))
			return int(i.w.pickN(t, int(n)))
		},
		"vAssume": func(i *interpreter, fr *frame, fn *ssa.Function, a []value) value {
			switch c := a[0].(type) {
			case bool:
				if !c {
					panic(pathAbort{"assume(false)"})
				}
			case sym:
				i.w.assume(c.e)
			}
			return nil
		},
		"vAssert": func(i *interpreter, fr *frame, fn *ssa.Function, a []value) value {
			label := a[0].(string)
			_, t := termOf(a[1])
			i.w.assertHolds(label, t)
			return nil
		},
		"vCover": func(i *interpreter, fr *frame, fn *ssa.Function, a []value) value {
			i.w.covers = append(i.w.covers, a[0].(string))
			return nil
		},
		"vTag": func(i *interpreter, fr *frame, fn *ssa.Function, a []value) value {
			i.w.tags = append(i.w.tags, a[0].(string))
			return nil
		},
		"vObserve": func(i *interpreter, fr *frame, fn *ssa.Function, a []value) value {
			vals := a[1].([]value)
			cp := make([]value, len(vals))
			for j, v := range vals {
				cp[j] = snapshot(v)
			}
			i.w.obs = append(i.w.obs, obsRec{a[0].(string), cp})
			return nil
		},
		"vAnd": func(i *interpreter, fr *frame, fn *ssa.Function, a []value) value { return andv(a[0], a[1]) },
		"vOr": func(i *interpreter, fr *frame, fn *ssa.Function, a []value) value {
			return notv(andv(notv(a[0]), notv(a[1])))
		},
		"vNot": func(i *interpreter, fr *frame, fn *ssa.Function, a []value) value { return notv(a[0]) },
		"vImplies": func(i *interpreter, fr *frame, fn *ssa.Function, a []value) value {
			return notv(andv(a[0], notv(a[1])))
		},
		"vIff": func(i *interpreter, fr *frame, fn *ssa.Function, a []value) value {
			return eqv(nil, a[0], a[1])
		},
		"vIte": func(i *interpreter, fr *frame, fn *ssa.Function, a []value) value { return itev(a[0], a[1], a[2]) },
		"vIteU64": func(i *interpreter, fr *frame, fn *ssa.Function, a []value) value { return itev(a[0], a[1], a[2]) },
		"vIteU32": func(i *interpreter, fr *frame, fn *ssa.Function, a []value) value { return itev(a[0], a[1], a[2]) },
		"vIteU16": func(i *interpreter, fr *frame, fn *ssa.Function, a []value) value { return itev(a[0], a[1], a[2]) },
		"vIteU8":  func(i *interpreter, fr *frame, fn *ssa.Function, a []value) value { return itev(a[0], a[1], a[2]) },
		"vIteBool": func(i *interpreter, fr *frame, fn *ssa.Function, a []value) value { return itev(a[0], a[1], a[2]) },
		"vAnonU16x2": func(i *interpreter, fr *frame, fn *ssa.Function, a []value) value {
			f, env := i.findAnon(a[0].(string), a[1].(string))
			return callSSA(i, fr, 0, f, []value{a[2], a[3]}, env)
		},
		"vInEngine": func(i *interpreter, fr *frame, fn *ssa.Function, a []value) value { return true },
		"vSkipGo": func(i *interpreter, fr *frame, fn *ssa.Function, a []value) value {
			i.skipGo[a[0].(string)] = true
			i.logUndo(func() { delete(i.skipGo, a[0].(string)) })
			return nil
		},
		"vOverride": func(i *interpreter, fr *frame, fn *ssa.Function, a []value) value {
			target := a[0].(string)
			var f value
			switch x := a[1].(iface).v.(type) {
			case *ssa.Function, *closure:
				f = x
			default:
				unsupported("vOverride: not a function")
			}
			i.overrides[target] = f
			i.logUndo(func() { delete(i.overrides, target) })
			return nil
		},
		"vPeer": func(i *interpreter, fr *frame, fn *ssa.Function, a []value) value {
			c, ok := a[0].(iface).v.(*chanv)
			if !ok || c == nil {
				unsupported("vPeer: not a channel")
			}
			c.peer = true
			return nil
		},
		"vGuarded": func(i *interpreter, fr *frame, fn *ssa.Function, a []value) value {
			obj := a[0].(iface).v
			mu, ok := a[1].(iface).v.(*value)
			if !ok || mu == nil {
				unsupported("vGuarded: second argument must be a pointer to a mutex")
			}
			g := guardRec{mu: mu, name: a[2].(string)}
			switch o := obj.(type) {
			case *value:
				g.cell = o
			case *omap:
				g.obj = o
			default:
				unsupported("vGuarded: cannot guard a %T", obj)
			}
			i.w.guards = append(i.w.guards, g)
			return nil
		},
		"vConcreteClock": func(i *interpreter, fr *frame, fn *ssa.Function, a []value) value {
			i.w.clockStep = asInt64(a[0])
			return nil
		},
		"vPreemptAtLocks": func(i *interpreter, fr *frame, fn *ssa.Function, a []value) value {
			i.w.preemptLeft = int(asInt64(a[0]))
			i.w.usesSched = true
			return nil
		},
		"vPreemptAtChans": func(i *interpreter, fr *frame, fn *ssa.Function, a []value) value {
			i.w.preemptLeft = int(asInt64(a[0]))
			i.w.usesSched = true
			i.w.preemptChans = true
			return nil
		},
		"vSettle": func(i *interpreter, fr *frame, fn *ssa.Function, a []value) value {
			i.settle()
			return nil
		},
		"vPreemptOn": func(i *interpreter, fr *frame, fn *ssa.Function, a []value) value {
			mu, ok := a[0].(iface).v.(*value)
			if !ok || mu == nil {
				unsupported("vPreemptOn: argument must be a pointer to a mutex")
			}
			if i.w.preemptOn == nil {
				i.w.preemptOn = map[*value]bool{}
			}
			i.w.preemptOn[mu] = true
			return nil
		},
		"vJoin": func(i *interpreter, fr *frame, fn *ssa.Function, a []value) value {
			i.joinAll()
			return nil
		},
		"vReadOnly": func(i *interpreter, fr *frame, fn *ssa.Function, a []value) value {
			g := guardRec{name: a[1].(string), ro: true}
			switch o := a[0].(iface).v.(type) {
			case *value:
				g.cell = o
			case *omap:
				g.obj = o
			default:
				unsupported("vReadOnly: cannot watch a %T", o)
			}
			i.w.guards = append(i.w.guards, g)
			return nil
		},
		"vHeld": func(i *interpreter, fr *frame, fn *ssa.Function, a []value) value {
			mu, _ := a[0].(iface).v.(*value)
			return i.w.held[mu]
		},
	}
}

func (i *interpreter) input(name value, k types.BasicKind) value {
	t := i.w.newInput(name.(string), kindWidth(k))
	return sym{k, t}
}

// itev builds ite(c, a, b) over scalars (concrete condition picks a side).
func itev(c, a, b value) value {
	if cb, ok := c.(bool); ok {
		if cb {
			return a
		}
		return b
	}
	ka, ta := termOf(a)
	_, tb := termOf(b)
	return mkSym(ka, mkIte(c.(sym).e, ta, tb))
}

// snapshot copies aggregates so that later mutation does not change what was
// observed.
func snapshot(v value) value {
	switch x := v.(type) {
	case iface:
		return iface{x.t, snapshot(x.v)}
	case structure:
		c := make(structure, len(x))
		for j := range x {
			c[j] = snapshot(x[j])
		}
		return c
	case array:
		c := make(array, len(x))
		for j := range x {
			c[j] = snapshot(x[j])
		}
		return c
	case []value:
		if x == nil {
			return x
		}
		c := make([]value, len(x))
		for j := range x {
			c[j] = snapshot(x[j])
		}
		return c
	}
	return v
}

var _ = strings.Contains

// findAnon locates the anonymous function of parent (full SSA name) whose
// parameter names, joined by commas, are params, and resolves its captured
// variables when they are themselves environment-free function literals of
// the same parent.
func (i *interpreter) findAnon(parent, params string) (*ssa.Function, []value) {
	var pf *ssa.Function
	for f := range i.allFuncs() {
		if f.String() == parent {
			pf = f
			break
		}
	}
	if pf == nil {
		unsupported("vAnon: no function %s", parent)
	}
	var target *ssa.Function
	for _, af := range pf.AnonFuncs {
		var names []string
		for _, p := range af.Params {
			names = append(names, p.Name())
		}
		if strings.Join(names, ",") == params {
			if target != nil {
				unsupported("vAnon: %s has two function literals with parameters (%s)", parent, params)
			}
			target = af
		}
	}
	if target == nil {
		unsupported("vAnon: %s has no function literal with parameters (%s)", parent, params)
	}
	// find its MakeClosure to resolve the bindings
	var env []value
	if len(target.FreeVars) > 0 {
		var mc *ssa.MakeClosure
		for _, b := range pf.Blocks {
			for _, in := range b.Instrs {
				if m, ok := in.(*ssa.MakeClosure); ok && m.Fn == target {
					mc = m
				}
			}
		}
		if mc == nil {
			unsupported("vAnon: closure creation of %s not found", target)
		}
		for _, bnd := range mc.Bindings {
			switch x := bnd.(type) {
			case *ssa.Function:
				env = append(env, x)
			case *ssa.MakeClosure:
				if len(x.Bindings) > 0 {
					unsupported("vAnon: %s captures a closure with its own environment", target)
				}
				env = append(env, &closure{Fn: x.Fn.(*ssa.Function)})
			case *ssa.Alloc:
				// a variable captured by reference: resolvable when its only
				// store in the parent is an environment-free function literal
				var stored value
				n := 0
				for _, b := range pf.Blocks {
					for _, in := range b.Instrs {
						if st, ok := in.(*ssa.Store); ok && st.Addr == x {
							n++
							switch v := st.Val.(type) {
							case *ssa.Function:
								stored = v
							case *ssa.MakeClosure:
								if len(v.Bindings) == 0 {
									stored = &closure{Fn: v.Fn.(*ssa.Function)}
								}
							}
						}
					}
				}
				if n != 1 || stored == nil {
					unsupported("vAnon: %s captures variable %s, which is not a single environment-free function literal", target, x.Comment)
				}
				cell := new(value)
				*cell = stored
				env = append(env, cell)
			default:
				unsupported("vAnon: %s captures %T, which cannot be resolved outside its parent", target, bnd)
			}
		}
	}
	return target, env
}

var allFuncsCache map[*ssa.Function]bool
var allFuncsMu sync.Mutex

func (i *interpreter) allFuncs() map[*ssa.Function]bool {
	allFuncsMu.Lock()
	defer allFuncsMu.Unlock()
	if allFuncsCache == nil {
		allFuncsCache = ssautil.AllFunctions(i.prog)
	}
	return allFuncsCache
}
