// Symbolic scalars: a value of basic kind k whose content is an SMT term.

package interp

import (
	"fmt"
	"go/token"
	"go/types"
	"net"
)

// sym is a symbolic bool or integer. Machine integers are bit-vectors of the
// width of their Go type (int/uint/uintptr are 64 bit).
type sym struct {
	k types.BasicKind
	e *Term
}

// symstr is a symbolic string: a term of the uninterpreted sort Str.
type symstr struct {
	e *Term
}

// symf is a float64 that is a positive multiple of a symbolic int64 (what
// Duration.Seconds() etc. return for a symbolic duration). Only sign tests
// against the constant 0 are supported.
type symf struct {
	e *Term // the int64 it was derived from (same sign, zero iff zero)
}

// engineErr is raised for anything the engine cannot model. It makes the run
// inconclusive; it is never read as "property holds".
type engineErr struct{ msg string }

func (e engineErr) Error() string { return e.msg }

func unsupported(format string, args ...interface{}) {
	panic(engineErr{fmt.Sprintf(format, args...)})
}

func kindWidth(k types.BasicKind) int {
	switch k {
	case types.Bool:
		return 0
	case types.Int8, types.Uint8:
		return 8
	case types.Int16, types.Uint16:
		return 16
	case types.Int32, types.Uint32:
		return 32
	case types.Int, types.Int64, types.Uint, types.Uint64, types.Uintptr:
		return 64
	}
	panic(fmt.Sprintf("kindWidth: %v", k))
}

func kindSigned(k types.BasicKind) bool {
	switch k {
	case types.Int, types.Int8, types.Int16, types.Int32, types.Int64:
		return true
	}
	return false
}

// intKind returns the basic kind of a concrete integer/bool value.
func intKind(v value) (types.BasicKind, uint64, bool) {
	switch x := v.(type) {
	case bool:
		return types.Bool, b2u(x), true
	case int:
		return types.Int, uint64(x), true
	case int8:
		return types.Int8, uint64(x), true
	case int16:
		return types.Int16, uint64(x), true
	case int32:
		return types.Int32, uint64(x), true
	case int64:
		return types.Int64, uint64(x), true
	case uint:
		return types.Uint, uint64(x), true
	case uint8:
		return types.Uint8, uint64(x), true
	case uint16:
		return types.Uint16, uint64(x), true
	case uint32:
		return types.Uint32, uint64(x), true
	case uint64:
		return types.Uint64, x, true
	case uintptr:
		return types.Uintptr, uint64(x), true
	case sym:
		return x.k, 0, false
	}
	return types.Invalid, 0, false
}

// termOf lifts a bool/integer value (concrete or symbolic) to a term.
func termOf(v value) (types.BasicKind, *Term) {
	if s, ok := v.(sym); ok {
		return s.k, s.e
	}
	k, c, ok := intKind(v)
	if !ok || k == types.Invalid {
		panic(fmt.Sprintf("termOf: not a scalar: %T", v))
	}
	return k, mkConst(kindWidth(k), c)
}

// concreteOf builds the host value of kind k with bit pattern c.
func concreteOf(k types.BasicKind, c uint64) value {
	switch k {
	case types.Bool:
		return c != 0
	case types.Int:
		return int(c)
	case types.Int8:
		return int8(c)
	case types.Int16:
		return int16(c)
	case types.Int32:
		return int32(c)
	case types.Int64:
		return int64(c)
	case types.Uint:
		return uint(c)
	case types.Uint8:
		return uint8(c)
	case types.Uint16:
		return uint16(c)
	case types.Uint32:
		return uint32(c)
	case types.Uint64:
		return c
	case types.Uintptr:
		return uintptr(c)
	}
	panic(fmt.Sprintf("concreteOf: %v", k))
}

// mkSym wraps a term as a value, collapsing constants to host values.
func mkSym(k types.BasicKind, e *Term) value {
	if e.isConst() {
		return concreteOf(k, e.k)
	}
	if e.w != kindWidth(k) {
		panic(fmt.Sprintf("mkSym: width %d for kind %v", e.w, k))
	}
	return sym{k, e}
}

func isSym(v value) bool {
	switch v.(type) {
	case sym, symstr, symf:
		return true
	}
	return false
}

// hasSym reports whether v (deeply, through aggregates but not pointers)
// contains a symbolic scalar.
func hasSym(v value) bool {
	switch x := v.(type) {
	case sym, symstr:
		return true
	case structure:
		for _, f := range x {
			if hasSym(f) {
				return true
			}
		}
	case array:
		for _, f := range x {
			if hasSym(f) {
				return true
			}
		}
	case iface:
		return hasSym(x.v)
	case tuple:
		for _, f := range x {
			if hasSym(f) {
				return true
			}
		}
	}
	return false
}

// symBinop implements binary operators when at least one operand is a sym.
// Division by a symbolic zero must have been excluded by the caller.
func symBinop(op token.Token, x, y value) value {
	if fx, ok := x.(symf); ok {
		return symfCmp(op, fx, y, false)
	}
	if fy, ok := y.(symf); ok {
		return symfCmp(op, fy, x, true)
	}
	if _, ok := x.(symstr); ok {
		return symStrBinop(op, x, y)
	}
	if _, ok := y.(symstr); ok {
		return symStrBinop(op, x, y)
	}
	if _, ok := x.(string); ok {
		return symStrBinop(op, x, y)
	}
	kx, tx := termOf(x)
	ky, ty := termOf(y)
	signed := kindSigned(kx)
	switch op {
	case token.SHL, token.SHR:
		w := tx.w
		var cnt *Term
		var over *Term // count >= w, only needed when truncating
		switch {
		case ty.w == w:
			cnt = ty
		case ty.w < w:
			cnt = mkResize(ty, w, false)
		default:
			over = mkNot(mkBin(OpUlt, ty, mkConst(ty.w, uint64(w))))
			cnt = mkResize(ty, w, false)
		}
		_ = ky
		var r *Term
		switch {
		case op == token.SHL:
			r = mkBin(OpShl, tx, cnt)
			if over != nil {
				r = mkIte(over, mkConst(w, 0), r)
			}
		case signed:
			r = mkBin(OpAShr, tx, cnt)
			if over != nil {
				r = mkIte(over, mkBin(OpAShr, tx, mkConst(w, uint64(w-1))), r)
			}
		default:
			r = mkBin(OpLShr, tx, cnt)
			if over != nil {
				r = mkIte(over, mkConst(w, 0), r)
			}
		}
		return mkSym(kx, r)
	}
	if kx == types.Bool {
		switch op {
		case token.EQL:
			return mkSym(types.Bool, mkEq(tx, ty))
		case token.NEQ:
			return mkSym(types.Bool, mkNot(mkEq(tx, ty)))
		case token.AND, token.LAND:
			return mkSym(types.Bool, mkAnd(tx, ty))
		case token.OR, token.LOR:
			return mkSym(types.Bool, mkOr(tx, ty))
		}
		panic(fmt.Sprintf("symBinop: bool op %s", op))
	}
	if tx.w != ty.w {
		panic(fmt.Sprintf("symBinop: width mismatch %s: %v(%d) vs %v(%d)", op, kx, tx.w, ky, ty.w))
	}
	switch op {
	case token.ADD:
		return mkSym(kx, mkBin(OpAdd, tx, ty))
	case token.SUB:
		return mkSym(kx, mkBin(OpSub, tx, ty))
	case token.MUL:
		return mkSym(kx, mkBin(OpMul, tx, ty))
	case token.QUO:
		if signed {
			return mkSym(kx, mkBin(OpSDiv, tx, ty))
		}
		return mkSym(kx, mkBin(OpUDiv, tx, ty))
	case token.REM:
		if signed {
			return mkSym(kx, mkBin(OpSRem, tx, ty))
		}
		return mkSym(kx, mkBin(OpURem, tx, ty))
	case token.AND:
		return mkSym(kx, mkBin(OpAnd, tx, ty))
	case token.OR:
		return mkSym(kx, mkBin(OpOr, tx, ty))
	case token.XOR:
		return mkSym(kx, mkBin(OpXor, tx, ty))
	case token.AND_NOT:
		return mkSym(kx, mkBin(OpAnd, tx, mkBVNot(ty)))
	case token.EQL:
		return mkSym(types.Bool, mkEq(tx, ty))
	case token.NEQ:
		return mkSym(types.Bool, mkNot(mkEq(tx, ty)))
	case token.LSS:
		if signed {
			return mkSym(types.Bool, mkBin(OpSlt, tx, ty))
		}
		return mkSym(types.Bool, mkBin(OpUlt, tx, ty))
	case token.LEQ:
		if signed {
			return mkSym(types.Bool, mkBin(OpSle, tx, ty))
		}
		return mkSym(types.Bool, mkBin(OpUle, tx, ty))
	case token.GTR:
		if signed {
			return mkSym(types.Bool, mkBin(OpSlt, ty, tx))
		}
		return mkSym(types.Bool, mkBin(OpUlt, ty, tx))
	case token.GEQ:
		if signed {
			return mkSym(types.Bool, mkBin(OpSle, ty, tx))
		}
		return mkSym(types.Bool, mkBin(OpUle, ty, tx))
	}
	panic(fmt.Sprintf("symBinop: op %s", op))
}

func symUnop(op token.Token, x sym) value {
	switch op {
	case token.SUB:
		return mkSym(x.k, mkNeg(x.e))
	case token.NOT:
		return mkSym(types.Bool, mkNot(x.e))
	case token.XOR:
		return mkSym(x.k, mkBVNot(x.e))
	}
	panic(fmt.Sprintf("symUnop: %s", op))
}

// symConv converts a symbolic integer to another integer type.
func symConv(tDst types.Type, x sym) value {
	b, ok := tDst.Underlying().(*types.Basic)
	if !ok {
		unsupported("conversion of symbolic %v to %s", x.k, tDst)
	}
	if b.Info()&types.IsInteger == 0 {
		unsupported("conversion of symbolic %v to %s", x.k, tDst)
	}
	dk := b.Kind()
	return mkSym(dk, mkResize(x.e, kindWidth(dk), kindSigned(x.k)))
}

// ---------------------------------------------------------------------------
// Strings

func strTerm(v value) *Term {
	switch s := v.(type) {
	case symstr:
		return s.e
	case string:
		return mkStrLit(s)
	}
	panic(fmt.Sprintf("strTerm: %T", v))
}

func b2sName(n int) string { return fmt.Sprintf("b2s%d", n) }

// bytesToSymStr is string(b) for a byte slice with symbolic bytes: an
// application b2sN(b0..bN-1). Equality with a literal or with another such
// string is expanded to byte-wise equality, so it is exact.
func bytesToSymStr(b []value) value {
	args := make([]*Term, len(b))
	for j, c := range b {
		_, args[j] = termOf(c)
	}
	return mkBStr(args)
}

func isB2S(t *Term) bool { return t.op == OpUF && t.name == b2sName(len(t.args)) }

// strEq builds the equality of two string terms.
func isIPStr(t *Term) bool { return t.op == OpUF && t.name == "ipstr" }

func strEq(tx, ty *Term) *Term {
	if isIPStr(ty) && !isIPStr(tx) {
		tx, ty = ty, tx
	}
	if isIPStr(tx) {
		switch {
		case ty.op == OpStrLit:
			// ipstr is the canonical dotted quad of a 32-bit address
			ip := net.ParseIP(ty.name)
			if ip == nil || ip.To4() == nil || ip.To4().String() != ty.name {
				return tFalse
			}
			i4 := ip.To4()
			v := uint64(i4[0])<<24 | uint64(i4[1])<<16 | uint64(i4[2])<<8 | uint64(i4[3])
			return mkEq(tx.args[0], mkConst(32, v))
		case isIPStr(ty):
			return mkEq(tx.args[0], ty.args[0])
		}
	}
	if isB2S(ty) && !isB2S(tx) {
		tx, ty = ty, tx
	}
	if isB2S(tx) {
		switch {
		case ty.op == OpStrLit:
			if len(ty.name) != len(tx.args) {
				return tFalse
			}
			r := tTrue
			for j, a := range tx.args {
				r = mkAnd(r, mkEq(a, mkConst(8, uint64(ty.name[j]))))
			}
			return r
		case isB2S(ty):
			if len(ty.args) != len(tx.args) {
				return tFalse
			}
			r := tTrue
			for j, a := range tx.args {
				r = mkAnd(r, mkEq(a, ty.args[j]))
			}
			return r
		}
	}
	return mkEq(tx, ty)
}

func symStrBinop(op token.Token, x, y value) value {
	tx, ty := strTerm(x), strTerm(y)
	switch op {
	case token.EQL:
		return mkSym(types.Bool, strEq(tx, ty))
	case token.NEQ:
		return mkSym(types.Bool, mkNot(strEq(tx, ty)))
	case token.ADD:
		if isBStr(x) || isBStr(y) {
			a, ok1 := bstrTerms(x)
			b, ok2 := bstrTerms(y)
			if ok1 && ok2 {
				return mkBStr(append(append([]*Term{}, a...), b...))
			}
		}
		return symstr{mkUF("strcat", wStr, tx, ty)}
	}
	unsupported("operator %s on a symbolic string", op)
	return nil
}

// symfCmp compares a symf with the float constant 0 (swapped: 0 op f).
func symfCmp(op token.Token, f symf, other value, swapped bool) value {
	if c, ok := other.(float64); !ok || c != 0 {
		unsupported("floating-point operation %s on a symbolic duration (only comparison with 0 is modelled)", op)
	}
	z := mkConst(64, 0)
	if swapped {
		switch op {
		case token.LSS:
			op = token.GTR
		case token.GTR:
			op = token.LSS
		case token.LEQ:
			op = token.GEQ
		case token.GEQ:
			op = token.LEQ
		}
	}
	switch op {
	case token.EQL:
		return mkSym(types.Bool, mkEq(f.e, z))
	case token.NEQ:
		return mkSym(types.Bool, mkNot(mkEq(f.e, z)))
	case token.LSS:
		return mkSym(types.Bool, mkBin(OpSlt, f.e, z))
	case token.LEQ:
		return mkSym(types.Bool, mkBin(OpSle, f.e, z))
	case token.GTR:
		return mkSym(types.Bool, mkBin(OpSlt, z, f.e))
	case token.GEQ:
		return mkSym(types.Bool, mkBin(OpSle, z, f.e))
	}
	unsupported("floating-point operation %s on a symbolic duration", op)
	return nil
}
