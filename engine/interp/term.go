// SMT terms for the symbolic extension of the interpreter.
//
// Terms are immutable DAG nodes. Sorts: Bool (w==0), (_ BitVec w) for
// w in 1..64, and the uninterpreted sort Str (w==wStr). Constructors fold
// constants and apply a few local simplifications; everything else is left to
// the solver. A native evaluator (eval) computes the value of a term under an
// assignment of its variables: it is what turns a solver model into concrete
// observable values and what lets the explorer skip one of the two
// feasibility queries at a branch.

package interp

import (
	"fmt"
	"strings"
)

type Op uint8

const (
	OpConst Op = iota
	OpVar
	OpAdd
	OpSub
	OpMul
	OpUDiv
	OpSDiv
	OpURem
	OpSRem
	OpAnd
	OpOr
	OpXor
	OpBVNot
	OpNeg
	OpShl
	OpLShr
	OpAShr
	OpEq
	OpUlt
	OpUle
	OpSlt
	OpSle
	OpBAnd
	OpBOr
	OpBNot
	OpIte
	OpZExt
	OpSExt
	OpExtract // low k bits... (extract hi lo): k = lo, w = hi-lo+1
	OpConcat
	OpUF     // uninterpreted function application: name, args; result sort by w
	OpStrLit // interned string literal (sort Str): name = the literal
)

const wStr = -1

type Term struct {
	op   Op
	w    int // 0 Bool, 1..64 bit-vector, wStr
	a, b *Term
	c    *Term
	k    uint64 // constant value / extract low bit
	name string
	args []*Term
	argw []int // UF: argument sorts (for declaration)
	size int   // approximate DAG size (tree size, capped)
}

func mask(w int) uint64 {
	if w >= 64 {
		return ^uint64(0)
	}
	return (uint64(1) << uint(w)) - 1
}

func (t *Term) isConst() bool { return t.op == OpConst }

var (
	tTrue  = &Term{op: OpConst, w: 0, k: 1, size: 1}
	tFalse = &Term{op: OpConst, w: 0, k: 0, size: 1}
)

func mkBool(b bool) *Term {
	if b {
		return tTrue
	}
	return tFalse
}

func mkConst(w int, v uint64) *Term {
	if w == 0 {
		return mkBool(v != 0)
	}
	return &Term{op: OpConst, w: w, k: v & mask(w), size: 1}
}

func mkVar(w int, name string) *Term {
	return &Term{op: OpVar, w: w, name: name, size: 1}
}

func mkStrLit(s string) *Term {
	return &Term{op: OpStrLit, w: wStr, name: s, size: 1}
}

func mkUF(name string, w int, args ...*Term) *Term {
	t := &Term{op: OpUF, w: w, name: name, args: args, size: 1}
	for _, a := range args {
		t.argw = append(t.argw, a.w)
		t.size += a.size
	}
	return t
}

func sx(w int, v uint64) int64 {
	if w >= 64 {
		return int64(v)
	}
	if v&(uint64(1)<<uint(w-1)) != 0 {
		return int64(v | ^mask(w))
	}
	return int64(v)
}

func capSize(n int) int {
	if n > 1<<30 {
		return 1 << 30
	}
	return n
}

// evalBin computes op on constants of width w.
func evalBin(op Op, w int, x, y uint64) uint64 {
	m := mask(w)
	switch op {
	case OpAdd:
		return (x + y) & m
	case OpSub:
		return (x - y) & m
	case OpMul:
		return (x * y) & m
	case OpUDiv:
		if y == 0 {
			return m
		}
		return (x / y) & m
	case OpURem:
		if y == 0 {
			return x
		}
		return (x % y) & m
	case OpSDiv:
		sxv, syv := sx(w, x), sx(w, y)
		if syv == 0 {
			if sxv < 0 {
				return 1
			}
			return m
		}
		if syv == -1 {
			return uint64(-sxv) & m
		}
		return uint64(sxv/syv) & m
	case OpSRem:
		sxv, syv := sx(w, x), sx(w, y)
		if syv == 0 {
			return x
		}
		if syv == -1 {
			return 0
		}
		return uint64(sxv%syv) & m
	case OpAnd:
		return x & y
	case OpOr:
		return x | y
	case OpXor:
		return x ^ y
	case OpShl:
		if y >= uint64(w) {
			return 0
		}
		return (x << y) & m
	case OpLShr:
		if y >= uint64(w) {
			return 0
		}
		return x >> y
	case OpAShr:
		s := sx(w, x)
		if y >= uint64(w) {
			if s < 0 {
				return m
			}
			return 0
		}
		return uint64(s>>y) & m
	case OpEq:
		return b2u(x == y)
	case OpUlt:
		return b2u(x < y)
	case OpUle:
		return b2u(x <= y)
	case OpSlt:
		return b2u(sx(w, x) < sx(w, y))
	case OpSle:
		return b2u(sx(w, x) <= sx(w, y))
	case OpBAnd:
		return b2u(x != 0 && y != 0)
	case OpBOr:
		return b2u(x != 0 || y != 0)
	}
	panic(fmt.Sprintf("evalBin: bad op %d", op))
}

func b2u(b bool) uint64 {
	if b {
		return 1
	}
	return 0
}

func isCmp(op Op) bool {
	switch op {
	case OpEq, OpUlt, OpUle, OpSlt, OpSle, OpBAnd, OpBOr:
		return true
	}
	return false
}

// mkBin builds a binary bit-vector / boolean term. Operands must have the
// same sort (callers widen shift counts first).
func mkBin(op Op, x, y *Term) *Term {
	if x.w != y.w {
		panic(fmt.Sprintf("mkBin: sort mismatch op=%d %d vs %d", op, x.w, y.w))
	}
	rw := x.w
	if isCmp(op) {
		rw = 0
	}
	if x.w == wStr {
		if op != OpEq {
			panic("mkBin: only = on Str")
		}
		if x == y {
			return tTrue
		}
		if x.op == OpStrLit && y.op == OpStrLit {
			return mkBool(x.name == y.name)
		}
		return &Term{op: op, w: 0, a: x, b: y, size: capSize(x.size + y.size + 1)}
	}
	if x.isConst() && y.isConst() {
		return mkConst(rw, evalBin(op, x.w, x.k, y.k))
	}
	switch op {
	case OpBAnd:
		if x.isConst() {
			if x.k == 0 {
				return tFalse
			}
			return y
		}
		if y.isConst() {
			if y.k == 0 {
				return tFalse
			}
			return x
		}
		if x == y {
			return x
		}
	case OpBOr:
		if x.isConst() {
			if x.k != 0 {
				return tTrue
			}
			return y
		}
		if y.isConst() {
			if y.k != 0 {
				return tTrue
			}
			return x
		}
		if x == y {
			return x
		}
	case OpEq:
		if x == y {
			return tTrue
		}
		if x.w == 0 { // boolean equality with a constant
			if x.isConst() {
				if x.k != 0 {
					return y
				}
				return mkNot(y)
			}
			if y.isConst() {
				if y.k != 0 {
					return x
				}
				return mkNot(x)
			}
		}
	case OpAdd, OpOr, OpXor:
		if x.isConst() && x.k == 0 {
			return y
		}
		if y.isConst() && y.k == 0 {
			return x
		}
	case OpSub, OpShl, OpLShr, OpAShr:
		if y.isConst() && y.k == 0 {
			return x
		}
	case OpAnd:
		if x.isConst() && x.k == 0 || y.isConst() && y.k == 0 {
			return mkConst(x.w, 0)
		}
		if x.isConst() && x.k == mask(x.w) {
			return y
		}
		if y.isConst() && y.k == mask(x.w) {
			return x
		}
	case OpUDiv:
		// division by a power of two is a shift (much easier to bit-blast)
		if y.isConst() && y.k != 0 && y.k&(y.k-1) == 0 {
			n := 0
			for (uint64(1) << uint(n)) != y.k {
				n++
			}
			return mkBin(OpLShr, x, mkConst(x.w, uint64(n)))
		}
	case OpURem:
		if y.isConst() && y.k != 0 && y.k&(y.k-1) == 0 {
			return mkBin(OpAnd, x, mkConst(x.w, y.k-1))
		}
	case OpMul:
		if x.isConst() && x.k == 1 {
			return y
		}
		if y.isConst() && y.k == 1 {
			return x
		}
		if x.isConst() && x.k == 0 || y.isConst() && y.k == 0 {
			return mkConst(x.w, 0)
		}
	}
	return &Term{op: op, w: rw, a: x, b: y, size: capSize(x.size + y.size + 1)}
}

func mkNot(x *Term) *Term {
	if x.w != 0 {
		panic("mkNot: not Bool")
	}
	if x.isConst() {
		return mkBool(x.k == 0)
	}
	if x.op == OpBNot {
		return x.a
	}
	return &Term{op: OpBNot, w: 0, a: x, size: capSize(x.size + 1)}
}

func mkAnd(x, y *Term) *Term     { return mkBin(OpBAnd, x, y) }
func mkOr(x, y *Term) *Term      { return mkBin(OpBOr, x, y) }
func mkEq(x, y *Term) *Term      { return mkBin(OpEq, x, y) }
func mkImplies(x, y *Term) *Term { return mkOr(mkNot(x), y) }

func mkBVNot(x *Term) *Term {
	if x.isConst() {
		return mkConst(x.w, ^x.k)
	}
	return &Term{op: OpBVNot, w: x.w, a: x, size: capSize(x.size + 1)}
}

func mkNeg(x *Term) *Term {
	if x.isConst() {
		return mkConst(x.w, -x.k)
	}
	return &Term{op: OpNeg, w: x.w, a: x, size: capSize(x.size + 1)}
}

func mkIte(c, x, y *Term) *Term {
	if c.w != 0 || x.w != y.w {
		panic(fmt.Sprintf("mkIte: sorts %d %d %d", c.w, x.w, y.w))
	}
	if c.isConst() {
		if c.k != 0 {
			return x
		}
		return y
	}
	if x == y {
		return x
	}
	if x.isConst() && y.isConst() && x.k == y.k && x.op == OpConst && y.op == OpConst {
		return x
	}
	if x.w == 0 && x.isConst() && y.isConst() {
		if x.k != 0 {
			return c
		}
		return mkNot(c)
	}
	return &Term{op: OpIte, w: x.w, a: x, b: y, c: c, size: capSize(c.size + x.size + y.size + 1)}
}

// mkExt zero- or sign-extends or truncates x to width w.
func mkResize(x *Term, w int, signed bool) *Term {
	if x.w == w {
		return x
	}
	if x.w == 0 || x.w == wStr {
		panic("mkResize: not a bit-vector")
	}
	if w < x.w {
		return mkExtract(x, w-1, 0)
	}
	if x.isConst() {
		if signed {
			return mkConst(w, uint64(sx(x.w, x.k)))
		}
		return mkConst(w, x.k)
	}
	op := OpZExt
	if signed {
		op = OpSExt
	}
	return &Term{op: op, w: w, a: x, k: uint64(w - x.w), size: capSize(x.size + 1)}
}

func mkExtract(x *Term, hi, lo int) *Term {
	w := hi - lo + 1
	if lo == 0 && w == x.w {
		return x
	}
	if x.isConst() {
		return mkConst(w, x.k>>uint(lo))
	}
	// extract of a zero-extension that stays inside the original
	if (x.op == OpZExt || x.op == OpSExt) && lo == 0 && w <= x.a.w {
		return mkExtract(x.a, hi, 0)
	}
	if lo == 0 && w < x.w {
		// the low bits of these operators depend only on the low bits of the operands
		switch x.op {
		case OpAdd, OpSub, OpMul, OpAnd, OpOr, OpXor:
			return mkBin(x.op, mkExtract(x.a, hi, 0), mkExtract(x.b, hi, 0))
		case OpBVNot:
			return mkBVNot(mkExtract(x.a, hi, 0))
		case OpNeg:
			return mkNeg(mkExtract(x.a, hi, 0))
		case OpIte:
			return mkIte(x.c, mkExtract(x.a, hi, 0), mkExtract(x.b, hi, 0))
		case OpZExt, OpSExt:
			if w > x.a.w {
				// still an extension of the original, narrower than before
				return mkResize(x.a, w, x.op == OpSExt)
			}
		}
	}
	if x.op == OpConcat {
		// concat(a, b): b occupies the low bits
		if hi < x.b.w {
			return mkExtract(x.b, hi, lo)
		}
		if lo >= x.b.w {
			return mkExtract(x.a, hi-x.b.w, lo-x.b.w)
		}
	}
	return &Term{op: OpExtract, w: w, a: x, k: uint64(lo), size: capSize(x.size + 1)}
}

func mkConcat(hi, lo *Term) *Term {
	w := hi.w + lo.w
	if w > 64 {
		panic("mkConcat: width > 64")
	}
	if hi.isConst() && lo.isConst() {
		return mkConst(w, hi.k<<uint(lo.w)|lo.k)
	}
	return &Term{op: OpConcat, w: w, a: hi, b: lo, size: capSize(hi.size + lo.size + 1)}
}

// boolToBV converts a Bool term to a 1/0 bit-vector of width w.
func boolToBV(c *Term, w int) *Term {
	return mkIte(c, mkConst(w, 1), mkConst(w, 0))
}

// ---------------------------------------------------------------------------
// Evaluation under a model.

type model struct {
	bv  map[string]uint64
	str map[string]string // values of Str-sorted inputs: a literal of the program or a fresh string
	tv  map[*Term]uint64  // values of auxiliary Bool/BV terms (applications of string functions)
	ts  map[*Term]string  // values of auxiliary Str terms: a literal, or "\x00fresh:<abstract value>"
	// home is the solver this model was read from: tv and ts are keyed by that
	// worker's terms and are meaningless to another worker (a model that
	// travelled with a work item only carries bv and str).
	home *solver
}

func newModel() *model {
	return &model{bv: map[string]uint64{}, str: map[string]string{}, tv: map[*Term]uint64{}, ts: map[*Term]string{}}
}

// eval computes t under m. ok is false if t contains an uninterpreted
// function or a Str-sorted subterm (those need the solver).
func (m *model) eval(t *Term, memo map[*Term]uint64) (v uint64, ok bool) {
	if t.op == OpConst {
		return t.k, true
	}
	if r, hit := memo[t]; hit {
		return r, true
	}
	switch t.op {
	case OpVar:
		if t.w == wStr {
			return 0, false
		}
		v = m.bv[t.name] & mask1(t.w)
	case OpUF, OpStrLit:
		return 0, false
	case OpBVNot:
		x, ok := m.eval(t.a, memo)
		if !ok {
			return 0, false
		}
		v = ^x & mask(t.w)
	case OpNeg:
		x, ok := m.eval(t.a, memo)
		if !ok {
			return 0, false
		}
		v = -x & mask(t.w)
	case OpBNot:
		x, ok := m.eval(t.a, memo)
		if !ok {
			return 0, false
		}
		v = b2u(x == 0)
	case OpIte:
		c, ok := m.eval(t.c, memo)
		if !ok {
			return 0, false
		}
		if c != 0 {
			v, ok = m.eval(t.a, memo)
		} else {
			v, ok = m.eval(t.b, memo)
		}
		if !ok {
			return 0, false
		}
	case OpZExt:
		x, ok := m.eval(t.a, memo)
		if !ok {
			return 0, false
		}
		v = x
	case OpSExt:
		x, ok := m.eval(t.a, memo)
		if !ok {
			return 0, false
		}
		v = uint64(sx(t.a.w, x)) & mask(t.w)
	case OpExtract:
		x, ok := m.eval(t.a, memo)
		if !ok {
			return 0, false
		}
		v = (x >> t.k) & mask(t.w)
	case OpConcat:
		x, ok := m.eval(t.a, memo)
		if !ok {
			return 0, false
		}
		y, ok := m.eval(t.b, memo)
		if !ok {
			return 0, false
		}
		v = x<<uint(t.b.w) | y
	case OpBAnd:
		x, ok := m.eval(t.a, memo)
		if !ok {
			return 0, false
		}
		if x == 0 {
			v = 0
			break
		}
		y, ok := m.eval(t.b, memo)
		if !ok {
			return 0, false
		}
		v = b2u(y != 0)
	case OpBOr:
		x, ok := m.eval(t.a, memo)
		if !ok {
			return 0, false
		}
		if x != 0 {
			v = 1
			break
		}
		y, ok := m.eval(t.b, memo)
		if !ok {
			return 0, false
		}
		v = b2u(y != 0)
	default:
		if t.a.w == wStr {
			return 0, false
		}
		x, ok := m.eval(t.a, memo)
		if !ok {
			return 0, false
		}
		y, ok := m.eval(t.b, memo)
		if !ok {
			return 0, false
		}
		v = evalBin(t.op, t.a.w, x, y)
	}
	memo[t] = v
	return v, true
}

func mask1(w int) uint64 {
	if w == 0 {
		return 1
	}
	return mask(w)
}

// ---------------------------------------------------------------------------
// Printing.

func sortName(w int) string {
	switch {
	case w == 0:
		return "Bool"
	case w == wStr:
		return "Str"
	}
	return fmt.Sprintf("(_ BitVec %d)", w)
}

func constSMT(w int, v uint64) string {
	if w == 0 {
		if v != 0 {
			return "true"
		}
		return "false"
	}
	if w%4 == 0 {
		return fmt.Sprintf("#x%0*x", w/4, v)
	}
	return fmt.Sprintf("#b%0*b", w, v)
}

var opNames = map[Op]string{
	OpAdd: "bvadd", OpSub: "bvsub", OpMul: "bvmul", OpUDiv: "bvudiv", OpSDiv: "bvsdiv",
	OpURem: "bvurem", OpSRem: "bvsrem", OpAnd: "bvand", OpOr: "bvor", OpXor: "bvxor",
	OpShl: "bvshl", OpLShr: "bvlshr", OpAShr: "bvashr", OpEq: "=", OpUlt: "bvult",
	OpUle: "bvule", OpSlt: "bvslt", OpSle: "bvsle", OpBAnd: "and", OpBOr: "or",
	OpConcat: "concat",
}

// String renders a term as a (tree-shaped) SMT-LIB expression; used for
// debugging and for small terms only.
func (t *Term) String() string {
	var sb strings.Builder
	t.write(&sb, func(x *Term) (string, bool) { return "", false })
	return sb.String()
}

// write prints t; ref may return a name standing for a subterm.
func (t *Term) write(sb *strings.Builder, ref func(*Term) (string, bool)) {
	switch t.op {
	case OpConst:
		sb.WriteString(constSMT(t.w, t.k))
		return
	case OpVar:
		sb.WriteString(t.name)
		return
	}
	sub := func(x *Term) {
		if x.op != OpConst && x.op != OpVar {
			if n, ok := ref(x); ok {
				sb.WriteString(n)
				return
			}
		}
		x.write(sb, ref)
	}
	switch t.op {
	case OpStrLit:
		sb.WriteString("?strlit?") // always referenced by name through ref
	case OpUF:
		if len(t.args) == 0 {
			sb.WriteString(t.name)
			return
		}
		sb.WriteString("(" + t.name)
		for _, a := range t.args {
			sb.WriteByte(' ')
			sub(a)
		}
		sb.WriteByte(')')
	case OpBVNot:
		sb.WriteString("(bvnot ")
		sub(t.a)
		sb.WriteByte(')')
	case OpNeg:
		sb.WriteString("(bvneg ")
		sub(t.a)
		sb.WriteByte(')')
	case OpBNot:
		sb.WriteString("(not ")
		sub(t.a)
		sb.WriteByte(')')
	case OpIte:
		sb.WriteString("(ite ")
		sub(t.c)
		sb.WriteByte(' ')
		sub(t.a)
		sb.WriteByte(' ')
		sub(t.b)
		sb.WriteByte(')')
	case OpZExt:
		fmt.Fprintf(sb, "((_ zero_extend %d) ", t.k)
		sub(t.a)
		sb.WriteByte(')')
	case OpSExt:
		fmt.Fprintf(sb, "((_ sign_extend %d) ", t.k)
		sub(t.a)
		sb.WriteByte(')')
	case OpExtract:
		fmt.Fprintf(sb, "((_ extract %d %d) ", int(t.k)+t.w-1, t.k)
		sub(t.a)
		sb.WriteByte(')')
	default:
		n, ok := opNames[t.op]
		if !ok {
			panic(fmt.Sprintf("write: op %d", t.op))
		}
		sb.WriteString("(" + n + " ")
		sub(t.a)
		sb.WriteByte(' ')
		sub(t.b)
		sb.WriteByte(')')
	}
}

// children calls f on each direct subterm.
func (t *Term) children(f func(*Term)) {
	if t.a != nil {
		f(t.a)
	}
	if t.b != nil {
		f(t.b)
	}
	if t.c != nil {
		f(t.c)
	}
	for _, a := range t.args {
		f(a)
	}
}
