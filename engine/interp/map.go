// Engine-level maps: insertion ordered, keys may be symbolic.
//
// Invariant: the keys of a map are pairwise distinct under the path
// condition (an insert happens only after every equality with an existing key
// has been decided false). Concrete keys are indexed by a canonical string;
// a lookup that involves a symbolic key (either the probe or a stored key)
// decides equality entry by entry, forking the path.

package interp

import (
	"go/types"
)

type ment struct {
	key, val value
	ks       string // canonical encoding when the key is concrete
	conc     bool
	dead     bool
}

type omap struct {
	keyType types.Type
	ents    []*ment
	idx     map[string]*ment
	nsym    int // number of live entries with symbolic keys
}

func makeMap(kt types.Type, reserve int64) value {
	return &omap{keyType: kt, idx: make(map[string]*ment)}
}

func (m *omap) len() int {
	if m == nil {
		return 0
	}
	return len(m.ents)
}

// find returns the entry whose key equals k under the current path,
// deciding symbolic equalities as needed.
func (i *interpreter) mapFind(m *omap, k value) *ment {
	if m == nil {
		return nil
	}
	ks, conc := keyString(k)
	if conc && m.nsym == 0 {
		return m.idx[ks]
	}
	for _, e := range m.ents {
		if conc && e.conc {
			if e.ks == ks {
				return e
			}
			continue
		}
		if i.decideValue(eqv(m.keyType, k, e.key), "mapkey") {
			return e
		}
	}
	return nil
}

func (i *interpreter) mapLookup(m *omap, k value) (value, bool) {
	if e := i.mapFind(m, k); e != nil {
		return e.val, true
	}
	return nil, false
}

func (i *interpreter) mapInsert(m *omap, k, v value) {
	if m == nil {
		panic(runtimePanic{"assignment to entry in nil map"})
	}
	if e := i.mapFind(m, k); e != nil {
		old := e.val
		i.logUndo(func() { e.val = old })
		e.val = v
		return
	}
	ks, conc := keyString(k)
	e := &ment{key: k, val: v, ks: ks, conc: conc}
	m.ents = append(m.ents, e)
	if conc {
		m.idx[ks] = e
	} else {
		m.nsym++
	}
	i.logUndo(func() {
		// remove e (it is the last live entry appended unless later undos ran first)
		for j := len(m.ents) - 1; j >= 0; j-- {
			if m.ents[j] == e {
				m.ents = append(m.ents[:j:j], m.ents[j+1:]...)
				break
			}
		}
		if conc {
			delete(m.idx, ks)
		} else {
			m.nsym--
		}
	})
}

func (i *interpreter) mapDelete(m *omap, k value) {
	if m == nil {
		return
	}
	e := i.mapFind(m, k)
	if e == nil {
		return
	}
	pos := -1
	for j, x := range m.ents {
		if x == e {
			pos = j
			break
		}
	}
	// copy-on-write so that iterators holding the old slice are unaffected
	n := make([]*ment, 0, len(m.ents)-1)
	n = append(n, m.ents[:pos]...)
	n = append(n, m.ents[pos+1:]...)
	oldEnts := m.ents
	m.ents = n
	e.dead = true
	if e.conc {
		delete(m.idx, e.ks)
	} else {
		m.nsym--
	}
	i.logUndo(func() {
		m.ents = oldEnts
		e.dead = false
		if e.conc {
			m.idx[e.ks] = e
		} else {
			m.nsym++
		}
	})
}

func (i *interpreter) mapClear(m *omap) {
	if m == nil {
		return
	}
	for len(m.ents) > 0 {
		i.mapDelete(m, m.ents[0].key)
	}
}

// ---------------------------------------------------------------------------
// Channels. A single interpreted goroutine runs at a time; an operation that
// cannot proceed raises a blockEvent (see explore.go for how it is judged).

type chanv struct {
	buf    []value
	cap    int
	closed bool
	timer  bool // made by time.After / time.NewTimer: ready only when nothing else is
	peer   bool // harness declared a concurrent peer: sends never block, values are dropped
	async  bool // unbuffered channel used between interpreted goroutines (one rendezvous slot)
	name   string
}

type blockEvent struct {
	op string
	ch *chanv
}

// canSend: buffered channels take a value while there is room. An unbuffered
// channel is modelled with one rendezvous slot: the sender deposits its value
// and continues, the receiver takes it later (a relaxation: the sender does
// not wait for the receiver to arrive; with one schedule executed this only
// changes *when* the sender continues).
func (c *chanv) canSend() bool {
	if c.peer {
		return true
	}
	if c.cap == 0 {
		return len(c.buf) == 0 && c.async
	}
	return len(c.buf) < c.cap
}

func (i *interpreter) chanSend(c *chanv, v value) {
	if c == nil {
		panic(blockEvent{"send on nil channel", c})
	}
	i.maybePreemptSync()
	if c.closed {
		panic(runtimePanic{"send on closed channel"})
	}
	if c.cap == 0 && !c.peer {
		// rendezvous slot only between interpreted goroutines
		c.async = len(i.gors) > 1
	}
	i.blockedOn(func() bool { return c.closed || c.canSend() }, func() {
		i.blockUntil(func() bool {
			if c.closed {
				panic(runtimePanic{"send on closed channel"})
			}
			return c.canSend()
		}, "send", c)
	})
	if c.peer {
		return // a concurrent peer (declared by the harness) takes the value
	}
	old := c.buf
	i.logUndo(func() { c.buf = old })
	n := make([]value, len(c.buf), len(c.buf)+1)
	copy(n, c.buf)
	c.buf = append(n, v)
}

func (i *interpreter) chanRecv(c *chanv, elem types.Type) (value, bool) {
	if c == nil {
		panic(blockEvent{"receive from nil channel", c})
	}
	var v value
	ok := false
	timerFired := false
	i.maybePreemptSync()
	me := i.curG
	me.timerWait = c.timer
	defer func() { me.timerWait = false }()
	me.waitReady = func() bool { return len(c.buf) > 0 || c.closed }
	defer func() { me.waitReady = nil }()
	i.blockUntilOr(func() bool {
		if len(c.buf) > 0 {
			old := c.buf
			i.logUndo(func() { c.buf = old })
			v, ok = c.buf[0], true
			c.buf = c.buf[1:]
			return true
		}
		if c.closed {
			v, ok = zero(elem), false
			return true
		}
		return false
	}, func() bool {
		// nobody can make progress: a timer channel fires now
		if c.timer {
			v, ok, timerFired = zero(elem), true, true
			return true
		}
		return false
	}, "receive", c)
	_ = timerFired
	return v, ok
}

func (i *interpreter) chanClose(c *chanv) {
	if c == nil {
		panic(runtimePanic{"close of nil channel"})
	}
	i.maybePreemptSync()
	if c.closed {
		panic(runtimePanic{"close of closed channel"})
	}
	i.logUndo(func() { c.closed = false })
	c.closed = true
	i.progress++
}
