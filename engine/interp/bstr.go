// Byte strings: Go strings whose length is concrete and whose bytes are terms
// (b2sN(b0..bN-1), see sym.go). They are first-class: indexing, slicing,
// concatenation, conversion from/to []byte, append/copy, range (ASCII only) and
// the searching functions of package strings work on them, forking on byte
// comparisons where a concrete answer is needed. A byte string whose bytes are
// all constants is an ordinary Go string again.
//
// Outside: non-ASCII bytes wherever runes are decoded (the path is
// inconclusive), ordering comparisons (<, >) of symbolic strings.

package interp

import (
	"go/types"
	"unicode/utf8"

	"golang.org/x/tools/go/ssa"
)

func decodeRuneInString(s string) (int32, int)     { r, n := utf8.DecodeRuneInString(s); return int32(r), n }
func decodeLastRuneInString(s string) (int32, int) { r, n := utf8.DecodeLastRuneInString(s); return int32(r), n }
func runeCountInString(s string) int               { return utf8.RuneCountInString(s) }

// bstrTerms returns the byte terms of a concrete string or a byte string.
func bstrTerms(v value) ([]*Term, bool) {
	switch s := v.(type) {
	case string:
		ts := make([]*Term, len(s))
		for j := 0; j < len(s); j++ {
			ts[j] = mkConst(8, uint64(s[j]))
		}
		return ts, true
	case symstr:
		if isB2S(s.e) {
			return s.e.args, true
		}
	}
	return nil, false
}

func isBStr(v value) bool {
	s, ok := v.(symstr)
	return ok && isB2S(s.e)
}

// mkBStr builds the string with the given byte terms.
func mkBStr(ts []*Term) value {
	allConst := true
	for _, t := range ts {
		if t.op != OpConst {
			allConst = false
			break
		}
	}
	if allConst {
		b := make([]byte, len(ts))
		for j, t := range ts {
			b[j] = byte(t.k)
		}
		return string(b)
	}
	cp := make([]*Term, len(ts))
	copy(cp, ts)
	return symstr{mkUF(b2sName(len(cp)), wStr, cp...)}
}

func byteVal(t *Term) value {
	if t.op == OpConst {
		return uint8(t.k)
	}
	return sym{types.Uint8, t}
}

func bstrBytes(ts []*Term) []value {
	out := make([]value, len(ts))
	for j, t := range ts {
		out[j] = byteVal(t)
	}
	return out
}

// asciiRune decodes the rune starting at byte term t: ASCII only.
func (i *interpreter) asciiRune(t *Term, what string) value {
	if t.op == OpConst {
		if t.k >= 0x80 {
			unsupported("%s: non-ASCII byte in a string with symbolic bytes", what)
		}
		return int32(t.k)
	}
	if !i.w.decide(mkBin(OpUlt, t, mkConst(8, 0x80))) {
		unsupported("%s: non-ASCII byte in a string with symbolic bytes", what)
	}
	return sym{types.Int32, mkResize(t, 32, false)}
}

// bstrIter ranges over a byte string (ASCII).
type bstrIter struct {
	i   *interpreter
	ts  []*Term
	pos int
}

func (it *bstrIter) next() tuple {
	okv := make(tuple, 3)
	if it.pos >= len(it.ts) {
		okv[0] = false
		return okv
	}
	okv[0] = true
	okv[1] = it.pos
	okv[2] = it.i.asciiRune(it.ts[it.pos], "range")
	it.pos++
	return okv
}

// matchAt decides whether sub occurs in s at position p.
func (i *interpreter) bstrMatchAt(s, sub []*Term, p int) bool {
	c := tTrue
	for k := range sub {
		c = mkAnd(c, mkEq(s[p+k], sub[k]))
	}
	return i.w.decide(c)
}

func (i *interpreter) bstrIndex(s, sub []*Term) int {
	for p := 0; p+len(sub) <= len(s); p++ {
		if i.bstrMatchAt(s, sub, p) {
			return p
		}
	}
	return -1
}

func (i *interpreter) bstrLastIndex(s, sub []*Term) int {
	for p := len(s) - len(sub); p >= 0; p-- {
		if i.bstrMatchAt(s, sub, p) {
			return p
		}
	}
	return -1
}

func registerBStrStubs() {
	two := func(args []value) ([]*Term, []*Term, bool) {
		if !isBStr(args[0]) && !isBStr(args[1]) {
			return nil, nil, false
		}
		a, ok1 := bstrTerms(args[0])
		b, ok2 := bstrTerms(args[1])
		return a, b, ok1 && ok2
	}
	wrap2 := func(name string, sym func(i *interpreter, a, b []*Term) value) {
		old := specials[name]
		specials[name] = func(i *interpreter, fr *frame, fn *ssa.Function, args []value) value {
			if a, b, ok := two(args); ok {
				return sym(i, a, b)
			}
			return old(i, fr, fn, args)
		}
	}
	wrap2("strings.Index", func(i *interpreter, a, b []*Term) value { return i.bstrIndex(a, b) })
	wrap2("strings.Contains", func(i *interpreter, a, b []*Term) value { return i.bstrIndex(a, b) >= 0 })
	wrap2("strings.HasPrefix", func(i *interpreter, a, b []*Term) value {
		return len(a) >= len(b) && i.bstrMatchAt(a, b, 0)
	})
	wrap2("strings.HasSuffix", func(i *interpreter, a, b []*Term) value {
		return len(a) >= len(b) && i.bstrMatchAt(a, b, len(a)-len(b))
	})
	wrap2("strings.Count", func(i *interpreter, a, b []*Term) value {
		if len(b) == 0 {
			unsupported("strings.Count with an empty separator on a string with symbolic bytes")
		}
		n := 0
		for p := 0; p+len(b) <= len(a); {
			if i.bstrMatchAt(a, b, p) {
				n++
				p += len(b)
			} else {
				p++
			}
		}
		return n
	})
	specials["strings.LastIndex"] = func(i *interpreter, fr *frame, fn *ssa.Function, args []value) value {
		a, ok1 := bstrTerms(args[0])
		b, ok2 := bstrTerms(args[1])
		if !ok1 || !ok2 {
			unsupported("strings.LastIndex on a symbolic string")
		}
		return i.bstrLastIndex(a, b)
	}
	oldIB := specials["strings.IndexByte"]
	specials["strings.IndexByte"] = func(i *interpreter, fr *frame, fn *ssa.Function, args []value) value {
		_, symc := args[1].(sym)
		if !isBStr(args[0]) && !symc {
			return oldIB(i, fr, fn, args)
		}
		a, ok := bstrTerms(args[0])
		if !ok {
			unsupported("strings.IndexByte on a symbolic string")
		}
		_, c := termOf(args[1])
		return i.bstrIndex(a, []*Term{c})
	}
	specials["internal/bytealg.IndexByteString"] = specials["strings.IndexByte"]
	// ASCII-only rune decoding on byte strings
	specials["unicode/utf8.DecodeRuneInString"] = func(i *interpreter, fr *frame, fn *ssa.Function, args []value) value {
		if s, ok := args[0].(string); ok {
			r, n := decodeRuneInString(s)
			return tuple{r, n}
		}
		a, ok := bstrTerms(args[0])
		if !ok {
			unsupported("utf8.DecodeRuneInString on a symbolic string")
		}
		if len(a) == 0 {
			return tuple{int32(0xFFFD), 0}
		}
		return tuple{i.asciiRune(a[0], "utf8.DecodeRuneInString"), 1}
	}
	specials["unicode/utf8.DecodeLastRuneInString"] = func(i *interpreter, fr *frame, fn *ssa.Function, args []value) value {
		if s, ok := args[0].(string); ok {
			r, n := decodeLastRuneInString(s)
			return tuple{r, n}
		}
		a, ok := bstrTerms(args[0])
		if !ok {
			unsupported("utf8.DecodeLastRuneInString on a symbolic string")
		}
		if len(a) == 0 {
			return tuple{int32(0xFFFD), 0}
		}
		return tuple{i.asciiRune(a[len(a)-1], "utf8.DecodeLastRuneInString"), 1}
	}
	specials["unicode/utf8.RuneCountInString"] = func(i *interpreter, fr *frame, fn *ssa.Function, args []value) value {
		if s, ok := args[0].(string); ok {
			return runeCountInString(s)
		}
		a, ok := bstrTerms(args[0])
		if !ok {
			unsupported("utf8.RuneCountInString on a symbolic string")
		}
		for _, t := range a {
			i.asciiRune(t, "utf8.RuneCountInString")
		}
		return len(a)
	}
	// sync.Pool: no pooling (Get finds nothing, Put forgets)
	specials["(*sync.Pool).Get"] = func(i *interpreter, fr *frame, fn *ssa.Function, args []value) value {
		p := args[0].(*value)
		newFn := (*p).(structure)
		// the New field is the last exported field of sync.Pool
		for k := len(newFn) - 1; k >= 0; k-- {
			switch f := newFn[k].(type) {
			case *ssa.Function:
				if f != nil {
					return call(i, fr, 0, f, nil)
				}
			case *closure:
				if f != nil {
					return call(i, fr, 0, f, nil)
				}
			}
		}
		return iface{}
	}
	specials["(*sync.Pool).Put"] = stubNil
}
