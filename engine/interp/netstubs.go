// Models of package net: a native bridge for pure functions on concrete
// arguments, contract stubs on symbolic strings (DESIGN.md §3.6), and values
// for the few package-level tables of net that code under test reads (net's
// own initialiser is not run).

package interp

import (
	"fmt"
	"go/types"
	"net"

	"golang.org/x/tools/go/ssa"
)

func bytesToValue(b []byte) value {
	if b == nil {
		return []value(nil)
	}
	out := make([]value, len(b))
	for j, c := range b {
		out[j] = c
	}
	return out
}

// concreteBytes converts a []value of concrete bytes; ok=false if symbolic.
func concreteBytes(v value) ([]byte, bool) {
	s, _ := v.([]value)
	out := make([]byte, len(s))
	for j, c := range s {
		b, ok := c.(uint8)
		if !ok {
			return nil, false
		}
		out[j] = b
	}
	return out, true
}

// ipTerm32 returns the 32-bit term of a 4-byte (or v4-in-v6 16-byte) address.
func ipTerm32(v value) (*Term, bool) {
	s, _ := v.([]value)
	if len(s) == 16 {
		s = s[12:]
	}
	if len(s) != 4 {
		return nil, false
	}
	var t *Term
	for _, c := range s {
		_, ct := termOf(c)
		if t == nil {
			t = ct
		} else {
			t = mkConcat(t, ct)
		}
	}
	return t, true
}

func (i *interpreter) ipNetValue(ip, mask value) value {
	var cell value = structure{ip, mask}
	return &cell
}

func registerNetStubs() {
	specials["net.ParseCIDR"] = func(i *interpreter, fr *frame, fn *ssa.Function, args []value) value {
		res := fn.Signature.Results()
		errT := res.At(2).Type()
		switch s := args[0].(type) {
		case string:
			ip, ipn, err := net.ParseCIDR(s)
			if err != nil {
				return tuple{[]value(nil), (*value)(nil), i.opaqueError("invalid CIDR address")}
			}
			return tuple{bytesToValue(ip), i.ipNetValue(bytesToValue(ipn.IP), bytesToValue(ipn.Mask)), zero(errT)}
		case symstr:
			if s.e.op == OpUF && s.e.name == "strcat" && s.e.args[1].op == OpStrLit && s.e.args[1].name == "/32" {
				return i.hostCIDR(s.e.args[0], errT)
			}
			return i.symParseCIDR(s, errT)
		}
		panic("net.ParseCIDR: bad argument")
	}
	specials["net.ParseIP"] = func(i *interpreter, fr *frame, fn *ssa.Function, args []value) value {
		switch s := args[0].(type) {
		case string:
			return bytesToValue(net.ParseIP(s))
		case symstr:
			ok := mkUF("parseip_ok", 0, s.e)
			ip := mkUF("parseip_v4", 32, s.e)
			i.w.noteStrFact("parseip", s.e, ok, ip)
			if !i.w.decide(ok) {
				return []value(nil)
			}
			// 16-byte form, as net.ParseIP returns for IPv4 text
			out := make([]value, 16)
			for j := 0; j < 10; j++ {
				out[j] = uint8(0)
			}
			out[10], out[11] = uint8(0xff), uint8(0xff)
			for j := 0; j < 4; j++ {
				out[12+j] = mkSym(types.Uint8, mkExtract(ip, 31-8*j, 24-8*j))
			}
			return out
		}
		panic("net.ParseIP: bad argument")
	}
	specials["(net.IP).String"] = func(i *interpreter, fr *frame, fn *ssa.Function, args []value) value {
		if b, ok := concreteBytes(args[0]); ok {
			return net.IP(b).String()
		}
		t, ok := ipTerm32(args[0])
		if !ok {
			unsupported("(net.IP).String of a symbolic address that is not 4 bytes")
		}
		i.w.stubs["(net.IP).String on symbolic bytes = injective atom ipstr(ip32)"]++
		return symstr{mkUF("ipstr", wStr, t)}
	}
	specials["(*net.IPNet).String"] = func(i *interpreter, fr *frame, fn *ssa.Function, args []value) value {
		p := args[0].(*value)
		if p == nil {
			return "<nil>"
		}
		st := (*p).(structure)
		ip, ok1 := concreteBytes(st[0])
		mask, ok2 := concreteBytes(st[1])
		if ok1 && ok2 {
			return (&net.IPNet{IP: ip, Mask: mask}).String()
		}
		return "<symbolic ipnet>"
	}
	specials["(*net.UDPAddr).String"] = func(i *interpreter, fr *frame, fn *ssa.Function, args []value) value {
		p := args[0].(*value)
		if p == nil {
			return "<nil>"
		}
		st := (*p).(structure)
		ip, ok := concreteBytes(st[0])
		if !ok {
			unsupported("(*net.UDPAddr).String on a symbolic address")
		}
		return (&net.UDPAddr{IP: ip, Port: int(asInt64(st[1]))}).String()
	}
	specials["(net.IPMask).String"] = func(i *interpreter, fr *frame, fn *ssa.Function, args []value) value {
		if b, ok := concreteBytes(args[0]); ok {
			return net.IPMask(b).String()
		}
		return "<symbolic mask>"
	}
	globalModels["net.v4InV6Prefix"] = func(i *interpreter, g *ssa.Global) value {
		return bytesToValue([]byte{0, 0, 0, 0, 0, 0, 0, 0, 0, 0, 0xff, 0xff})
	}
	// name tables of generated protobuf enums are only used for log text
	globalModels["github.com/p4lang/p4runtime/go/p4/v1.Update_Type_name"] = func(i *interpreter, g *ssa.Global) value {
		return &omap{idx: map[string]*ment{}}
	}
	// the sentinel a closed socket's Read/ReadFrom returns (compared by identity)
	globalModels["net.ErrClosed"] = func(i *interpreter, g *ssa.Global) value {
		return i.opaqueError("use of closed network connection")
	}
	globalModels["net.IPv4zero"] = func(i *interpreter, g *ssa.Global) value { return bytesToValue(net.IPv4zero) }
	globalModels["net.IPv4bcast"] = func(i *interpreter, g *ssa.Global) value { return bytesToValue(net.IPv4bcast) }
	globalModels["net.IPv6zero"] = func(i *interpreter, g *ssa.Global) value { return bytesToValue(net.IPv6zero) }
	globalModels["net.classAMask"] = func(i *interpreter, g *ssa.Global) value { return bytesToValue(net.IPv4Mask(0xff, 0, 0, 0)) }
	globalModels["net.classBMask"] = func(i *interpreter, g *ssa.Global) value { return bytesToValue(net.IPv4Mask(0xff, 0xff, 0, 0)) }
	globalModels["net.classCMask"] = func(i *interpreter, g *ssa.Global) value { return bytesToValue(net.IPv4Mask(0xff, 0xff, 0xff, 0)) }
}

// globalModels gives values to package-level variables of packages whose
// initialiser is not run.
var globalModels = map[string]func(i *interpreter, g *ssa.Global) value{}

// symParseCIDR is the contract stub of net.ParseCIDR on an atom:
// ok(a) => plen(a) <= 32 and the returned network is masked.
func (i *interpreter) symParseCIDR(s symstr, errT types.Type) value {
	ok := mkUF("parsecidr_ok", 0, s.e)
	ip := mkUF("parsecidr_ip", 32, s.e)
	plen := mkUF("parsecidr_plen", 8, s.e)
	i.w.noteStrFact("parsecidr", s.e, ok, ip, plen)
	if !i.w.decide(ok) {
		return tuple{[]value(nil), (*value)(nil), i.opaqueError("invalid CIDR address")}
	}
	i.w.assume(mkBin(OpUle, plen, mkConst(8, 32)))
	// mask = plen == 0 ? 0 : ~0 << (32-plen)
	sh := mkBin(OpSub, mkConst(32, 32), mkResize(plen, 32, false))
	maskT := mkBin(OpShl, mkConst(32, 0xffffffff), sh) // shift by 32 gives 0 in SMT-LIB
	netT := mkBin(OpAnd, ip, maskT)
	mk4 := func(t *Term) value {
		out := make([]value, 4)
		for j := 0; j < 4; j++ {
			out[j] = mkSym(types.Uint8, mkExtract(t, 31-8*j, 24-8*j))
		}
		return out
	}
	// first result: the address as written (16-byte form for IPv4 text)
	ip16 := make([]value, 16)
	for j := 0; j < 10; j++ {
		ip16[j] = uint8(0)
	}
	ip16[10], ip16[11] = uint8(0xff), uint8(0xff)
	b4 := mk4(ip).([]value)
	copy(ip16[12:], b4)
	return tuple{ip16, i.ipNetValue(mk4(netT), mk4(maskT)), zero(errT)}
}

var _ = fmt.Sprintf
