// Scalar summarisation of pure callees (DESIGN.md §3.4).
//
// A call to a function that is statically pure (no store to memory it did not
// allocate itself, no map update, no channel operation, no defer/go, only
// static calls to pure functions) and returns scalars or aggregates of
// scalars is executed by a local exploration: every path of the callee is
// enumerated under the caller's path condition, and the results are merged
// into ite(pc1, r1, ite(pc2, r2, ...)). The caller's path does not fork.
// If anything unexpected happens in the callee (a panic, a pick, more than
// maxLocalPaths paths, unmergeable results) the attempt is abandoned and the
// call is executed normally, forking the caller's path as usual.

package interp

import (
	"go/token"
	"go/types"

	"golang.org/x/tools/go/ssa"
)

const maxLocalPaths = 128

type localCtx struct {
	prefix  []bool
	pos     int
	taken   []bool
	pending [][]bool
	cond    *Term
	npaths  int
}

type localAbandon struct{ why string }

var pureCache = map[*ssa.Function]int{} // 0 unknown, 1 pure, 2 impure, 3 in progress
var pureMu chan struct{} = make(chan struct{}, 1)

func isScalarType(t types.Type) bool {
	switch u := t.Underlying().(type) {
	case *types.Basic:
		return u.Info()&(types.IsInteger|types.IsBoolean) != 0
	case *types.Struct:
		for k := 0; k < u.NumFields(); k++ {
			if !isScalarType(u.Field(k).Type()) {
				return false
			}
		}
		return true
	case *types.Array:
		return u.Len() <= 16 && isScalarType(u.Elem())
	case *types.Tuple:
		for k := 0; k < u.Len(); k++ {
			if !isScalarType(u.At(k).Type()) {
				return false
			}
		}
		return u.Len() > 0
	}
	return false
}

func (i *interpreter) summarizable(fn *ssa.Function, env []value) bool {
	pureMu <- struct{}{}
	defer func() { <-pureMu }()
	if !staticPure(fn) || !isScalarType(fn.Signature.Results()) {
		return false
	}
	// calls through captured function values: the captured value must itself be
	// a pure function without environment
	for _, k := range pureNeeds[fn] {
		if k >= len(env) {
			return false
		}
		ev := env[k]
		if cell, ok := ev.(*value); ok && cell != nil {
			ev = *cell
		}
		switch f := ev.(type) {
		case *ssa.Function:
			if f == nil || len(pureNeeds[f]) > 0 || !staticPure(f) {
				return false
			}
		case *closure:
			if f == nil || len(f.Env) > 0 || len(pureNeeds[f.Fn]) > 0 || !staticPure(f.Fn) {
				return false
			}
		default:
			return false
		}
	}
	return true
}

// pureNeeds[fn] lists the free variables of fn that fn calls: fn is pure only
// if the functions bound to them are.
var pureNeeds = map[*ssa.Function][]int{}

func staticPure(fn *ssa.Function) bool {
	switch pureCache[fn] {
	case 1:
		return true
	case 2, 3:
		return false // a cycle counts as impure
	}
	pureCache[fn] = 3
	ok := fn.Blocks != nil && computePure(fn)
	if ok {
		pureCache[fn] = 1
	} else {
		pureCache[fn] = 2
	}
	return ok
}

func computePure(fn *ssa.Function) bool {
	if _, special := specials[fn.String()]; special {
		return false
	}
	n := 0
	var needs []int
	defer func() { pureNeeds[fn] = needs }()
	for _, b := range fn.Blocks {
		for _, in := range b.Instrs {
			n++
			switch x := in.(type) {
			case *ssa.Store:
				a, ok := x.Addr.(*ssa.Alloc)
				if !ok || a.Heap {
					// stores through FieldAddr/IndexAddr of a local alloc
					if !localAddr(x.Addr) {
						return false
					}
				}
			case *ssa.MapUpdate, *ssa.Send, *ssa.Go, *ssa.Defer, *ssa.Select, *ssa.Panic, *ssa.MakeChan, *ssa.RunDefers, *ssa.MakeClosure:
				return false
			case *ssa.UnOp:
				if x.Op == token.ARROW {
					return false
				}
			case *ssa.Call:
				if b, ok := x.Call.Value.(*ssa.Builtin); ok {
					switch b.Name() {
					case "len", "cap", "min", "max":
					default:
						return false
					}
					continue
				}
				callee := x.Call.StaticCallee()
				cv := x.Call.Value
				if u, ok := cv.(*ssa.UnOp); ok && u.Op == token.MUL {
					cv = u.X // a function variable captured by reference
				}
				if fv, ok := cv.(*ssa.FreeVar); ok && !x.Call.IsInvoke() {
					idx := -1
					for k, f := range fn.FreeVars {
						if f == fv {
							idx = k
						}
					}
					if idx < 0 {
						return false
					}
					needs = append(needs, idx)
					continue
				}
				if callee == nil || x.Call.IsInvoke() {
					return false
				}
				if callee.Parent() != nil && callee.Parent() != fn {
					return false
				}
				if len(callee.FreeVars) > 0 {
					return false
				}
				if !staticPure(callee) || len(pureNeeds[callee]) > 0 {
					return false
				}
			}
		}
	}
	return n < 400
}

// localAddr reports whether addr is derived from a non-escaping local Alloc.
func localAddr(v ssa.Value) bool {
	for depth := 0; depth < 8; depth++ {
		switch x := v.(type) {
		case *ssa.Alloc:
			return !x.Heap
		case *ssa.FieldAddr:
			v = x.X
		case *ssa.IndexAddr:
			v = x.X
		default:
			return false
		}
	}
	return false
}

// trySummarize runs fn by local exploration. ok=false: not attempted or
// abandoned (the caller then executes the call normally).
func (i *interpreter) trySummarize(caller *frame, fn *ssa.Function, args []value, env []value) (res value, ok bool) {
	w := i.w
	if !i.trailOn || w.noMerge {
		return nil, false
	}
	anySym := false
	for _, a := range args {
		if hasSym(a) {
			anySym = true
			break
		}
	}
	if !anySym {
		return nil, false
	}
	if !i.summarizable(fn, env) {
		return nil, false
	}
	if w.pos < len(w.item.prefix) {
		// while replaying a prefix the solver frame must hold exactly the
		// recorded decisions; local exploration only asks extra questions,
		// which is fine: it never asserts into the path frame.
	}
	saveLocal := w.local
	saveDepth, saveTop := i.depth, i.top
	saveCur := w.cur
	lc := &localCtx{}
	w.local = lc
	type pr struct {
		cond *Term
		val  value
	}
	var outs []pr
	abandoned := ""
	lc.pending = [][]bool{nil}
	for len(lc.pending) > 0 && abandoned == "" {
		n := len(lc.pending)
		lc.prefix = lc.pending[n-1]
		lc.pending = lc.pending[:n-1]
		lc.pos = 0
		lc.taken = lc.taken[:0]
		lc.cond = tTrue
		lc.npaths++
		if lc.npaths > maxLocalPaths {
			abandoned = "too many callee paths"
			break
		}
		w.s.pushScope()
		func() {
			defer func() {
				if r := recover(); r != nil {
					switch p := r.(type) {
					case localAbandon:
						abandoned = p.why
					case runtimePanic, targetPanic, blockEvent, exitEvent:
						abandoned = "callee panics on some path"
					default:
						w.s.popScope()
						w.local = saveLocal
						panic(r)
					}
				}
			}()
			v := callSSAbody(i, caller, fn, args, env)
			outs = append(outs, pr{lc.cond, v})
		}()
		w.s.popScope()
		i.depth, i.top = saveDepth, saveTop
	}
	w.local = saveLocal
	w.cur = saveCur
	if abandoned != "" || len(outs) == 0 {
		w.stubs["summarisation abandoned: "+abandoned]++
		return nil, false
	}
	merged := outs[len(outs)-1].val
	for k := len(outs) - 2; k >= 0; k-- {
		m, ok := mergeValues(outs[k].cond, outs[k].val, merged)
		if !ok {
			w.stubs["summarisation abandoned: unmergeable results"]++
			return nil, false
		}
		merged = m
	}
	if len(outs) > 1 {
		w.merged++
	}
	return merged, true
}

// localDecide resolves a branch inside a local exploration.
func (w *worker) localDecide(c *Term) bool {
	lc := w.local
	if lc.pos < len(lc.prefix) {
		b := lc.prefix[lc.pos]
		lc.pos++
		lit := c
		if !b {
			lit = mkNot(c)
		}
		w.s.assert(lit)
		lc.cond = mkAnd(lc.cond, lit)
		lc.taken = append(lc.taken, b)
		return b
	}
	rt, _ := w.s.check(c, nil, false)
	rf, _ := w.s.check(mkNot(c), nil, false)
	if rt == resUnknown || rf == resUnknown {
		panic(localAbandon{"solver unknown"})
	}
	var b bool
	switch {
	case rt == resSat && rf == resSat:
		np := make([]bool, len(lc.taken)+1)
		copy(np, lc.taken)
		np[len(lc.taken)] = false
		lc.pending = append(lc.pending, np)
		b = true
	case rt == resSat:
		b = true
	case rf == resSat:
		b = false
	default:
		panic(localAbandon{"both sides infeasible"})
	}
	lit := c
	if !b {
		lit = mkNot(c)
	}
	if rt == resSat && rf == resSat {
		w.s.assert(lit)
		lc.cond = mkAnd(lc.cond, lit)
	}
	lc.pos++
	lc.prefix = append(lc.prefix[:len(lc.taken)], b)
	lc.taken = append(lc.taken, b)
	return b
}

// mergeValues builds ite(c, a, b) over scalars and aggregates of scalars.
func mergeValues(c *Term, a, b value) (value, bool) {
	switch x := a.(type) {
	case structure:
		y, ok := b.(structure)
		if !ok || len(x) != len(y) {
			return nil, false
		}
		out := make(structure, len(x))
		for k := range x {
			m, ok := mergeValues(c, x[k], y[k])
			if !ok {
				return nil, false
			}
			out[k] = m
		}
		return out, true
	case array:
		y, ok := b.(array)
		if !ok || len(x) != len(y) {
			return nil, false
		}
		out := make(array, len(x))
		for k := range x {
			m, ok := mergeValues(c, x[k], y[k])
			if !ok {
				return nil, false
			}
			out[k] = m
		}
		return out, true
	case tuple:
		y, ok := b.(tuple)
		if !ok || len(x) != len(y) {
			return nil, false
		}
		out := make(tuple, len(x))
		for k := range x {
			m, ok := mergeValues(c, x[k], y[k])
			if !ok {
				return nil, false
			}
			out[k] = m
		}
		return out, true
	}
	ka, _, okA := intKind(a)
	_, isSymA := a.(sym)
	kb, _, okB := intKind(b)
	_, isSymB := b.(sym)
	if (okA || isSymA) && (okB || isSymB) {
		if isSymA {
			ka = a.(sym).k
		}
		if isSymB {
			kb = b.(sym).k
		}
		if ka != kb {
			return nil, false
		}
		_, ta := termOf(a)
		_, tb := termOf(b)
		return mkSym(ka, mkIte(c, ta, tb)), true
	}
	return nil, false
}
