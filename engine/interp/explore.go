// Path exploration: replay-based depth-first search over decision vectors.
//
// A path is identified by the sequence of decisions taken at symbolic
// branch points. Nothing is cloned: a worker re-executes the harness from its
// entry, forcing the recorded prefix and then extending it, asking the solver
// at every new decision whether the other side is feasible and queueing it if
// so. Memory that existed before the path started is restored from an undo
// trail when the path ends.

package interp

import (
	"fmt"
	"go/token"
	"os"
	"runtime"
	"runtime/debug"
	"sort"
	"strings"
	"sync"
	"time"

	"golang.org/x/tools/go/ssa"
)

var profileSites = os.Getenv("VERIF_PROFILE") != ""

type dec struct {
	pick bool    // false: two-way branch, true: concretisation of a term
	b    bool    // branch outcome
	val  uint64  // picked value
	excl []uint64 // pending pick: values already explored (only last in a prefix)
	pend bool    // pending pick
	site uint32
}

type workItem struct {
	prefix []dec
	m      *model
}

// InputVal is one symbolic input of a path with the value a model gave it.
type InputVal struct {
	Name  string `json:"name"`
	Width int    `json:"width"`
	Val   uint64 `json:"val"`
	Str   string `json:"str,omitempty"`
	IsStr bool   `json:"is_str,omitempty"`
}

type Violation struct {
	Kind    string     `json:"kind"` // assert, panic, exit, block, lock, deadlock
	Label   string     `json:"label"`
	Msg     string     `json:"msg"`
	Site    string     `json:"site"`
	Harness string     `json:"harness"`
	Tags    []string   `json:"tags"`
	Inputs  []InputVal `json:"inputs"`
	Stack   []string   `json:"stack,omitempty"`
	// Sched: found by a harness that explores schedules (vPreemptAtLocks): the
	// native confirmation is the harness's stress function, not a replay.
	Sched bool `json:"sched,omitempty"`
	// SchedTrace: the goroutine switches of the failing path (who ran, where it
	// stopped), for harnesses that explore schedules.
	SchedTrace []string `json:"sched_trace,omitempty"`
}

func (v *Violation) Signature() string {
	return v.Harness + "|" + v.Kind + "|" + v.Label
}

type Observation struct {
	Label string `json:"label"`
	Val   string `json:"val"`
}

// PathSample is a passing path with the concrete inputs of one model of its
// path condition and the values the harness observed under that model.
type PathSample struct {
	Harness string        `json:"harness"`
	Inputs  []InputVal    `json:"inputs"`
	Tags    []string      `json:"tags"`
	Obs     []Observation `json:"obs"`
	Covers  []string      `json:"covers,omitempty"`
}

type Result struct {
	Harness      string
	Paths        int // feasible paths completed (including those ending in a violation)
	Pruned       int // paths cut by an unsatisfiable assumption
	Decisions    int // solver-decided branch decisions
	Queries      int
	SolverTime   time.Duration
	Steps        int64
	Violations   []*Violation
	Inconclusive []string
	Covers       map[string]int
	Asserts      map[string]int // label -> number of times checked (proved or violated)
	Samples      []*PathSample
	Funcs        map[string]int // function -> distinct instructions executed
	Stubs        map[string]int
	MergedCalls  int
	Wall         time.Duration
	MaxDepth     int
	Sites        map[string]int // solver queries per code site (profiling)
}

type Config struct {
	Prog       *ssa.Program
	Pkg        *ssa.Package // package holding the harness functions
	Harness    string
	Jobs       int
	MaxSteps   int64 // per path
	MaxPaths   int
	MaxPicks   int
	TimeoutMS  int // per solver query
	SampleMax  int // number of passing-path samples to keep
	Seed       int64
	InitPkgs   []string // import paths whose initialisers are run
	Deadline   time.Time
	Verbose    bool
	NoBlockVio bool // a blocked channel operation is not a violation (still ends the path)
	MaxTokens  int               // bound on strings.Fields of an atom (default 9)
	Vars       map[string]string // integer package variables of the harness (bounds) to set after init
}

type explorer struct {
	cfg     Config
	mu      sync.Mutex
	cond    *sync.Cond
	queue   []*workItem
	busy    int
	stop    bool
	res     *Result
	vioSeen map[string]bool
	incSeen map[string]bool
	funcs   map[*ssa.Function]map[ssa.Instruction]bool
}

// pathAbort ends the current path silently (infeasible assumption).
type pathAbort struct{ reason string }

// pathInconclusive ends the current path and marks the run inconclusive.
type pathInconclusive struct{ reason string }

type exitEvent struct {
	msg string
}

type worker struct {
	ex     *explorer
	i      *interpreter
	s      *solver
	item   *workItem
	pos    int
	taken  []dec
	m      *model
	inputs []*Term
	inputN map[string]int
	strIn  map[string]bool
	tags   []string
	obs    []obsRec
	covers []string
	steps  int64
	pcN    int
	memo   map[*Term]uint64
	nDec   int
	cur    ssa.Instruction // current instruction (for sites)
	curFn  *ssa.Function
	rngst  uint64
	held   map[*value]bool // mutexes currently held
	heldBy map[*value]*gor
	guards []guardRec
	// schedules at lock granularity (sched.go)
	preemptLeft int
	preempted   int
	usesSched   bool
	preemptOn   map[*value]bool
	preemptChans bool // decision points at channel / select / sync.Map operations too (sched.go)
	schedLog     []string
	fcov   map[*ssa.Function]map[ssa.Instruction]bool
	stubs  map[string]int
	strFacts []strFact
	side     map[*value]*omap // engine maps attached to objects created on this path
	sideInit map[*value]*omap // ... to objects created by package initialisers
	clock    *Term
	nclk     int
	clockStep int64
	panicStack []string
	panicAt    string
	local      *localCtx
	auxBV      []*Term
	auxStr     []*Term
	nstr       int
	sites      map[string]int
	fieldsMemo map[*Term][]value
	splitMemo  map[splitKey][]value
	noMerge    bool
	merged     int
}

type obsRec struct {
	label string
	vals  []value
}

func Explore(cfg Config) *Result {
	if cfg.Jobs <= 0 {
		cfg.Jobs = runtime.NumCPU()
	}
	if cfg.MaxSteps == 0 {
		cfg.MaxSteps = 5_000_000
	}
	if cfg.MaxPicks == 0 {
		cfg.MaxPicks = 64
	}
	if cfg.TimeoutMS == 0 {
		cfg.TimeoutMS = 30000
	}
	ex := &explorer{cfg: cfg, vioSeen: map[string]bool{}, incSeen: map[string]bool{}}
	ex.cond = sync.NewCond(&ex.mu)
	ex.res = &Result{Sites: map[string]int{}, Harness: cfg.Harness, Covers: map[string]int{}, Asserts: map[string]int{}, Funcs: map[string]int{}, Stubs: map[string]int{}}
	ex.funcs = map[*ssa.Function]map[ssa.Instruction]bool{}
	ex.queue = []*workItem{{prefix: nil, m: newModel()}}
	start := time.Now()
	fn := cfg.Pkg.Func(cfg.Harness)
	if fn == nil {
		ex.res.Inconclusive = append(ex.res.Inconclusive, "no harness function "+cfg.Harness)
		return ex.res
	}
	var wg sync.WaitGroup
	for j := 0; j < cfg.Jobs; j++ {
		wg.Add(1)
		go func(id int) {
			defer wg.Done()
			ex.runWorker(id, fn)
		}(j)
	}
	wg.Wait()
	ex.res.Wall = time.Since(start)
	for f, m := range ex.funcs {
		ex.res.Funcs[f.String()] = len(m)
	}
	sort.Slice(ex.res.Violations, func(a, b int) bool {
		return ex.res.Violations[a].Signature() < ex.res.Violations[b].Signature()
	})
	return ex.res
}

func (ex *explorer) inconclusive(reason string) {
	ex.mu.Lock()
	defer ex.mu.Unlock()
	if !ex.incSeen[reason] {
		ex.incSeen[reason] = true
		if len(ex.res.Inconclusive) < 50 {
			ex.res.Inconclusive = append(ex.res.Inconclusive, reason)
		}
	}
}

func (ex *explorer) push(it *workItem) {
	ex.mu.Lock()
	ex.queue = append(ex.queue, it)
	ex.mu.Unlock()
	ex.cond.Signal()
}

// pop returns the next work item (LIFO: depth first) or nil when done.
func (ex *explorer) pop() *workItem {
	ex.mu.Lock()
	defer ex.mu.Unlock()
	for {
		if ex.stop {
			return nil
		}
		if n := len(ex.queue); n > 0 {
			it := ex.queue[n-1]
			ex.queue = ex.queue[:n-1]
			ex.busy++
			return it
		}
		if ex.busy == 0 {
			ex.cond.Broadcast()
			return nil
		}
		ex.cond.Wait()
	}
}

func (ex *explorer) done() {
	ex.mu.Lock()
	ex.busy--
	if ex.busy == 0 && len(ex.queue) == 0 {
		ex.cond.Broadcast()
	}
	ex.mu.Unlock()
}

func (ex *explorer) runWorker(id int, fn *ssa.Function) {
	var w *worker
	for {
		it := ex.pop()
		if it == nil {
			break
		}
		if w == nil {
			// set up lazily: a short exploration never pays for 16 interpreters
			s, err := newSolver(ex.cfg.TimeoutMS)
			if err != nil {
				ex.inconclusive("cannot start solver: " + err.Error())
				ex.done()
				ex.mu.Lock()
				ex.stop = true
				ex.mu.Unlock()
				ex.cond.Broadcast()
				return
			}
			w = &worker{ex: ex, s: s, fcov: map[*ssa.Function]map[ssa.Instruction]bool{}, stubs: map[string]int{}, sites: map[string]int{}, sideInit: map[*value]*omap{}, side: map[*value]*omap{}, held: map[*value]bool{}, heldBy: map[*value]*gor{}}
			s.aux = func() ([]*Term, []*Term) { return w.auxBV, w.auxStr }
			w.i = newInterpreter(ex.cfg.Prog, w)
			if msg := w.i.runInits(ex.cfg); msg != "" {
				ex.inconclusive("package initialisation: " + msg)
				ex.done()
				ex.mu.Lock()
				ex.stop = true
				ex.mu.Unlock()
				ex.cond.Broadcast()
				return
			}
			for k, v := range ex.cfg.Vars {
				g, ok := ex.cfg.Pkg.Members[k].(*ssa.Global)
				if !ok {
					ex.inconclusive("harness bound variable " + k + " not found")
					continue
				}
				var n int
				fmt.Sscan(v, &n)
				*w.i.global(g) = n
			}
			w.i.trailOn = true
		}
		w.runPath(fn, it)
		ex.done()
		ex.mu.Lock()
		over := ex.cfg.MaxPaths > 0 && ex.res.Paths+ex.res.Pruned >= ex.cfg.MaxPaths
		dl := !ex.cfg.Deadline.IsZero() && time.Now().After(ex.cfg.Deadline)
		ex.mu.Unlock()
		if over {
			ex.inconclusive(fmt.Sprintf("path budget of %d exhausted with work left", ex.cfg.MaxPaths))
			ex.mu.Lock()
			ex.stop = true
			ex.mu.Unlock()
			ex.cond.Broadcast()
		}
		if dl {
			ex.inconclusive("time budget exhausted with work left")
			ex.mu.Lock()
			ex.stop = true
			ex.mu.Unlock()
			ex.cond.Broadcast()
		}
	}
	if w != nil {
		ex.mu.Lock()
		ex.res.Queries += w.s.Queries
		ex.res.SolverTime += w.s.Time
		for f, m := range w.fcov {
			g := ex.funcs[f]
			if g == nil {
				g = map[ssa.Instruction]bool{}
				ex.funcs[f] = g
			}
			for k := range m {
				g[k] = true
			}
		}
		for k, v := range w.stubs {
			ex.res.Stubs[k] += v
		}
		for k, v := range w.sites {
			ex.res.Sites[k] += v
		}
		for _, l := range w.s.oneShotLog {
			ex.res.Stubs["one-shot re-posed assertion ("+l+")"]++
		}
		ex.mu.Unlock()
		w.s.close()
	}
}

func (w *worker) runPath(fn *ssa.Function, it *workItem) {
	w.item = it
	w.pos = 0
	w.taken = w.taken[:0]
	w.inputs = w.inputs[:0]
	w.inputN = map[string]int{}
	w.strIn = map[string]bool{}
	w.tags = nil
	w.obs = nil
	w.covers = nil
	w.steps = 0
	w.pcN = 0
	w.memo = map[*Term]uint64{}
	w.held = map[*value]bool{}
	w.heldBy = map[*value]*gor{}
	w.guards = nil
	w.preemptLeft, w.preempted, w.usesSched, w.preemptOn, w.preemptChans, w.schedLog = 0, 0, false, nil, false, nil
	w.strFacts = nil
	w.side = map[*value]*omap{}
	w.clock = nil
	w.nclk = 0
	w.clockStep = 0
	w.panicStack = nil
	w.panicAt = ""
	w.local = nil
	w.auxBV = nil
	w.auxStr = nil
	w.nstr = 0
	w.fieldsMemo = map[*Term][]value{}
	w.splitMemo = map[splitKey][]value{}
	if w.sideInit == nil {
		w.sideInit = map[*value]*omap{}
	}
	if w.fcov == nil {
		w.fcov = map[*ssa.Function]map[ssa.Instruction]bool{}
		w.stubs = map[string]int{}
	}
	if len(it.prefix) == 0 {
		w.m = it.m
	} else {
		w.m = nil
	}
	w.i.resetPathState()
	w.s.resetPath()

	outcome := "ok"
	func() {
		defer func() {
			r := recover()
			if r == nil {
				return
			}
			switch p := r.(type) {
			case pathAbort:
				outcome = "pruned"
			case pathInconclusive:
				outcome = "inconclusive"
				w.ex.inconclusive(p.reason)
			case engineErr:
				outcome = "inconclusive"
				w.ex.inconclusive("unsupported: " + p.msg + " @ " + w.where() + " <- " + strings.Join(w.i.stackTrace(), " < "))
			case targetPanic:
				outcome = "violation"
				w.violation("panic", "panic", "panic: "+toString(p.v))
			case runtimePanic:
				outcome = "violation"
				w.violation("panic", "panic", "panic: runtime error: "+p.msg)
			case exitEvent:
				outcome = "violation"
				w.violation("exit", "exit", p.msg)
			case blockEvent:
				if w.ex.cfg.NoBlockVio {
					outcome = "inconclusive"
					w.ex.inconclusive("goroutine would block: " + p.op + " @ " + w.where())
				} else {
					outcome = "violation"
					w.violation("block", "block", "goroutine would block forever: "+p.op)
				}
			default:
				outcome = "inconclusive"
				msg := fmt.Sprint(r)
				st := string(debug.Stack())
				if os.Getenv("VERIF_DEBUG") != "" {
					fmt.Fprintf(os.Stderr, "engine crash: %v\n%s\n", r, st)
				}
				w.ex.inconclusive("engine error: " + firstLine(msg) + " @ " + w.where() + " :: " + crashSite(st) + " <- " + strings.Join(w.i.stackTrace(), " < "))
			}
		}()
		call(w.i, nil, token.NoPos, fn, nil)
	}()
	w.i.reapGoroutines()
	w.i.rollback()

	ex := w.ex
	ex.mu.Lock()
	defer ex.mu.Unlock()
	ex.res.Steps += w.steps
	ex.res.Decisions += w.nDec
	ex.res.MergedCalls += w.merged
	w.merged = 0
	w.nDec = 0
	if len(w.taken) > ex.res.MaxDepth {
		ex.res.MaxDepth = len(w.taken)
	}
	if outcome != "inconclusive" {
		for _, c := range w.covers {
			ex.res.Covers[c]++
		}
	}
	switch outcome {
	case "pruned":
		ex.res.Pruned++
		return
	case "inconclusive":
		return
	}
	ex.res.Paths++
	if outcome == "ok" && w.m != nil && (len(ex.res.Samples) < ex.cfg.SampleMax) && w.modelUsable() && !w.usesSched {
		ex.res.Samples = append(ex.res.Samples, w.sample())
	}
}

func firstLine(s string) string {
	if i := strings.IndexByte(s, '\n'); i >= 0 {
		return s[:i]
	}
	return s
}

// crashSite extracts the first engine frame below the panic from a stack dump.
func crashSite(st string) string {
	lines := strings.Split(st, "\n")
	for j, l := range lines {
		if strings.Contains(l, "/interp/") && strings.Contains(l, ".go:") && !strings.Contains(l, "explore.go") {
			_ = j
			return strings.TrimSpace(l)
		}
	}
	return ""
}

func (w *worker) where() string {
	if w.cur == nil {
		return "?"
	}
	fn := w.cur.Parent()
	pos := w.cur.Pos()
	if pos == token.NoPos {
		// find nearest instruction with a position
		for _, in := range w.cur.Block().Instrs {
			if in.Pos() != token.NoPos {
				pos = in.Pos()
				if in == w.cur {
					break
				}
			}
		}
	}
	p := fn.Prog.Fset.Position(pos)
	return fmt.Sprintf("%s (%s:%d)", fn.String(), shortFile(p.Filename), p.Line)
}

func shortFile(f string) string {
	if i := strings.LastIndex(f, "/"); i >= 0 {
		if j := strings.LastIndex(f[:i], "/"); j >= 0 {
			return f[j+1:]
		}
	}
	return f
}

// siteText returns "function: source line text" of the current instruction,
// used to identify a fault site independent of line numbers.
func (w *worker) siteText() string {
	if w.cur == nil {
		return "?"
	}
	fn := w.cur.Parent()
	return fn.String()
}

func (w *worker) siteID() uint32 {
	if w.cur == nil {
		return 0
	}
	// position + block index: stable across re-executions of the same program
	h := uint32(w.cur.Pos())*31 + uint32(w.cur.Block().Index)
	return h
}

// ---------------------------------------------------------------------------
// Decisions

func (w *worker) assertPC(t *Term) {
	w.s.assert(t)
	w.pcN++
}

func (w *worker) evalModel(t *Term) (bool, bool) {
	if w.m == nil {
		return false, false
	}
	v, ok := w.m.eval(t, map[*Term]uint64{})
	return v != 0, ok
}

func (w *worker) unknown(what string) {
	panic(pathInconclusive{fmt.Sprintf("solver answered unknown (%s) %s @ %s", what, w.s.lastErr, w.where())})
}

// decide resolves a symbolic branch condition.
func (w *worker) decide(c *Term) bool {
	if c.isConst() {
		return c.k != 0
	}
	if profileSites {
		w.sites[w.where()]++
	}
	if c.w != 0 {
		panic("decide: not Bool")
	}
	if w.local != nil {
		return w.localDecide(c)
	}
	site := w.siteID()
	if w.pos < len(w.item.prefix) {
		d := w.item.prefix[w.pos]
		if d.pick || d.pend {
			panic(pathInconclusive{"replay divergence: expected a branch decision @ " + w.where()})
		}
		if d.site != site {
			panic(pathInconclusive{"replay divergence: decision site differs @ " + w.where()})
		}
		w.pos++
		if d.b {
			w.assertPC(c)
		} else {
			w.assertPC(mkNot(c))
		}
		w.taken = append(w.taken, d)
		if w.pos == len(w.item.prefix) {
			w.m = w.item.m
		}
		return d.b
	}
	w.nDec++
	side, ok := w.evalModel(c)
	if !ok {
		r, m := w.s.check(c, w.inputs, true)
		switch r {
		case resSat:
			side, w.m = true, m
		case resUnsat:
			r2, m2 := w.s.check(mkNot(c), w.inputs, true)
			if r2 != resSat {
				if r2 == resUnsat {
					if debugTrace {
						os.WriteFile(fmt.Sprintf("/tmp/pcunsat.%d.smt2", time.Now().UnixNano()), []byte(strings.Join(w.s.trace, "\n")), 0o644)
					}
					panic(pathInconclusive{"path condition became unsatisfiable @ " + w.where()})
				}
				w.unknown("branch")
			}
			w.m = m2
			w.assertPC(mkNot(c))
			w.taken = append(w.taken, dec{b: false, site: site})
			return false
		default:
			w.unknown("branch")
		}
	}
	var other *Term
	if side {
		other = mkNot(c)
	} else {
		other = c
	}
	r, m := w.s.check(other, w.inputs, true)
	switch r {
	case resSat:
		np := make([]dec, len(w.taken)+1)
		copy(np, w.taken)
		np[len(w.taken)] = dec{b: !side, site: site}
		w.ex.push(&workItem{prefix: np, m: m})
	case resUnknown:
		w.ex.inconclusive(fmt.Sprintf("solver answered unknown for the other side of a branch %s @ %s", w.s.lastErr, w.where()))
	}
	if side {
		w.assertPC(c)
	} else {
		w.assertPC(mkNot(c))
	}
	w.taken = append(w.taken, dec{b: side, site: site})
	return side
}

// decideFresh is decide for the condition "v == 1" over a 1-bit input v that
// was created just now and appears in no constraint: both sides are feasible
// by construction, so no solver query is needed (scheduling decisions).
func (w *worker) decideFresh(v *Term) bool {
	c := mkEq(v, mkConst(1, 1))
	if w.local != nil || w.pos < len(w.item.prefix) || w.m == nil || v.op != OpVar {
		return w.decide(c)
	}
	site := w.siteID()
	w.nDec++
	om := newModel()
	for k, x := range w.m.bv {
		om.bv[k] = x
	}
	for k, x := range w.m.str {
		om.str[k] = x
	}
	om.bv[v.name] = 1
	np := make([]dec, len(w.taken)+1)
	copy(np, w.taken)
	np[len(w.taken)] = dec{b: true, site: site}
	w.ex.push(&workItem{prefix: np, m: om})
	w.assertPC(mkNot(c))
	w.taken = append(w.taken, dec{b: false, site: site})
	return false
}

// assume constrains the path; an unsatisfiable assumption ends it silently.
func (w *worker) assume(c *Term) {
	if w.local != nil {
		panic(localAbandon{"assume inside a summarised callee"})
	}
	if c.isConst() {
		if c.k == 0 {
			panic(pathAbort{"assume(false)"})
		}
		return
	}
	if w.pos < len(w.item.prefix) {
		w.assertPC(c)
		return
	}
	if ok, known := w.evalModel(c); known && ok {
		w.assertPC(c)
		return
	}
	r, m := w.s.check(c, w.inputs, true)
	switch r {
	case resSat:
		w.m = m
		w.assertPC(c)
	case resUnsat:
		panic(pathAbort{"assumption unsatisfiable"})
	default:
		w.unknown("assume")
	}
}

// pick concretises a bit-vector term: the path continues with one feasible
// value and one alternative per other feasible value is queued.
func (w *worker) pick(t *Term) uint64 { return w.pickN(t, 0) }

// pickN is pick for a term known to have exactly domain feasible values
// (0 = unknown): the last alternative is not queued.
func (w *worker) pickN(t *Term, domain int) uint64 {
	if t.isConst() {
		return t.k
	}
	if w.local != nil {
		panic(localAbandon{"concretisation inside a summarised callee"})
	}
	site := w.siteID()
	var excl []uint64
	if w.pos < len(w.item.prefix) {
		d := w.item.prefix[w.pos]
		if !d.pick && !d.pend {
			panic(pathInconclusive{"replay divergence: expected a pick @ " + w.where()})
		}
		if d.site != site {
			panic(pathInconclusive{"replay divergence: pick site differs @ " + w.where()})
		}
		if !d.pend {
			w.pos++
			w.assertPC(mkEq(t, mkConst(t.w, d.val)))
			w.taken = append(w.taken, d)
			if w.pos == len(w.item.prefix) {
				w.m = w.item.m
			}
			return d.val
		}
		// pending pick: last element of the prefix
		w.pos++
		excl = d.excl
		for _, v := range excl {
			w.assertPC(mkNot(mkEq(t, mkConst(t.w, v))))
		}
		w.m = nil
	}
	w.nDec++
	var val uint64
	got := false
	if w.m != nil {
		if v, ok := w.m.eval(t, map[*Term]uint64{}); ok {
			val, got = v, true
		}
	}
	if !got {
		r, vals := w.s.getValues(nil, []*Term{t})
		switch r {
		case resSat:
			val = vals[0]
		case resUnsat:
			if len(excl) > 0 {
				panic(pathAbort{"no further value"})
			}
			panic(pathInconclusive{"path condition became unsatisfiable @ " + w.where()})
		default:
			w.unknown("pick")
		}
	}
	if domain > 0 && len(excl)+1 >= domain {
		// every value of the domain has been taken: nothing left to queue
	} else if len(excl)+1 > w.ex.cfg.MaxPicks {
		w.ex.inconclusive(fmt.Sprintf("more than %d feasible values for a symbolic size/index @ %s", w.ex.cfg.MaxPicks, w.where()))
	} else {
		np := make([]dec, len(w.taken)+1)
		copy(np, w.taken)
		ne := make([]uint64, len(excl)+1)
		copy(ne, excl)
		ne[len(excl)] = val
		np[len(w.taken)] = dec{pend: true, excl: ne, site: site}
		w.ex.push(&workItem{prefix: np})
	}
	eq := mkEq(t, mkConst(t.w, val))
	w.assertPC(eq)
	w.taken = append(w.taken, dec{pick: true, val: val, site: site})
	if w.m == nil || !got {
		// refresh the model so that it satisfies the new equality
		r, m := w.s.check(nil, w.inputs, true)
		if r != resSat {
			w.unknown("pick-model")
		}
		w.m = m
	}
	return val
}

// check an assertion: a satisfiable negation is a violation.
func (w *worker) assertHolds(label string, c *Term) {
	if w.local != nil {
		panic(localAbandon{"assert inside a summarised callee"})
	}
	if w.pos < len(w.item.prefix) {
		// already judged by the path this one was forked from
		w.assume(c)
		return
	}
	w.ex.mu.Lock()
	w.ex.res.Asserts[label]++
	w.ex.mu.Unlock()
	if c.isConst() {
		if c.k == 0 {
			w.violationWithModel("assert", label, "assertion "+label+" fails", w.currentModel())
			panic(pathAbort{"assert(false)"})
		}
		return
	}
	r, m := w.s.check(mkNot(c), w.inputs, true)
	if r == resUnknown {
		// the incremental solver gave up: re-pose the obligation one-shot
		switch w.s.oneShot(mkNot(c), 120) {
		case resUnsat:
			r = resUnsat
		case resSat:
			// a counterexample exists; get its model from the incremental solver with a longer limit
			w.s.send("(set-option :timeout 120000)")
			r, m = w.s.check(mkNot(c), w.inputs, true)
			w.s.send(fmt.Sprintf("(set-option :timeout %d)", w.s.timeoutMS))
		}
	}
	switch r {
	case resSat:
		w.violationWithModel("assert", label, "assertion "+label+" fails", m)
	case resUnknown:
		w.ex.inconclusive(fmt.Sprintf("solver answered unknown for assertion %s %s", label, w.s.lastErr))
	}
	if r == resUnsat {
		// c follows from the path condition: adding it changes nothing and the
		// current model keeps satisfying everything (no query needed)
		w.assertPC(c)
		return
	}
	w.assume(c)
}

// modelUsable: the path's model can be turned into a replay vector without
// asking the solver again (a model that travelled from another worker cannot
// when there are string inputs: their inversion needs this worker's terms).
func (w *worker) modelUsable() bool {
	if w.m == nil {
		return false
	}
	if w.m.home == w.s {
		return true
	}
	for _, in := range w.inputs {
		if in.w == wStr {
			return false
		}
	}
	return true
}

func (w *worker) currentModel() *model {
	if w.m != nil {
		// string inversion reads the values of THIS path's auxiliary terms: a cached
		// model (read earlier on this path, before later facts were noted, or on the
		// path this one was forked from, or by another worker) does not have them
		needTerms := false
		for _, in := range w.inputs {
			if in.w == wStr {
				needTerms = true
				break
			}
		}
		if !needTerms {
			return w.m
		}
	}
	r, m := w.s.check(nil, w.inputs, true)
	if r != resSat {
		return newModel()
	}
	w.m = m
	return m
}

func (w *worker) violation(kind, label, msg string) {
	w.violationWithModel(kind, label, msg, w.currentModel())
}

func (w *worker) violationWithModel(kind, label, msg string, m *model) {
	v := &Violation{Kind: kind, Label: label, Msg: msg, Site: w.where(), Harness: w.ex.cfg.Harness}
	v.Tags = append(v.Tags, w.tags...)
	v.Sched = w.usesSched
	if w.usesSched {
		v.SchedTrace = append([]string{}, w.schedLog...)
	}
	v.Inputs = w.inputVals(m)
	v.Stack = w.i.stackTrace()
	if kind == "panic" && w.panicStack != nil {
		v.Stack = w.panicStack
		v.Site = w.panicAt
	}
	if kind != "assert" && kind != "lock" {
		fn := "?"
		if len(v.Stack) > 0 {
			fn = v.Stack[0]
		}
		v.Label = kind + "@" + fn
		// channel misuse: two different defects can end in the same function
		for _, what := range []string{"close of closed channel", "send on closed channel"} {
			if strings.Contains(msg, what) {
				v.Label += ":" + strings.ReplaceAll(what, " ", "-")
			}
		}
	}
	sig := v.Signature() + "|" + strings.Join(v.Tags, ",")
	w.ex.mu.Lock()
	defer w.ex.mu.Unlock()
	if w.ex.vioSeen[sig] {
		return
	}
	w.ex.vioSeen[sig] = true
	w.ex.res.Violations = append(w.ex.res.Violations, v)
}

func (w *worker) inputVals(m *model) []InputVal {
	out := make([]InputVal, 0, len(w.inputs))
	for _, in := range w.inputs {
		iv := InputVal{Name: in.name, Width: in.w}
		if in.w == wStr {
			iv.IsStr = true
			iv.Width = 0
			iv.Str = w.strValue(in, m)
			if os.Getenv("VERIF_DEBUG_STR") != "" {
				fmt.Fprintf(os.Stderr, "strinput %s abs=%q -> %q\n", in.name, m.ts[in], iv.Str)
			}
		} else {
			iv.Val = m.bv[in.name] & mask1(in.w)
		}
		out = append(out, iv)
	}
	return out
}

func (w *worker) sample() *PathSample {
	ps := &PathSample{Harness: w.ex.cfg.Harness, Inputs: w.inputVals(w.m), Tags: w.tags, Covers: w.covers}
	for _, o := range w.obs {
		var parts []string
		for _, v := range o.vals {
			parts = append(parts, w.concreteString(v))
		}
		ps.Obs = append(ps.Obs, Observation{o.label, strings.Join(parts, ",")})
	}
	return ps
}

// concreteString renders a value under the current model the same way the
// native vObserve does (integers in decimal, bools, strings quoted).
func (w *worker) concreteString(v value) string {
	switch x := v.(type) {
	case sym:
		c, ok := w.m.eval(x.e, map[*Term]uint64{})
		if !ok {
			return "?"
		}
		return fmtConcrete(concreteOf(x.k, c))
	case symstr:
		return "?"
	case iface:
		return w.concreteString(x.v)
	case structure:
		var parts []string
		for _, f := range x {
			parts = append(parts, w.concreteString(f))
		}
		return "{" + strings.Join(parts, " ") + "}"
	case array:
		var parts []string
		for _, f := range x {
			parts = append(parts, w.concreteString(f))
		}
		return "[" + strings.Join(parts, " ") + "]"
	case []value:
		var parts []string
		for _, f := range x {
			parts = append(parts, w.concreteString(f))
		}
		return "[" + strings.Join(parts, " ") + "]"
	}
	return fmtConcrete(v)
}

func fmtConcrete(v value) string {
	switch x := v.(type) {
	case bool:
		if x {
			return "true"
		}
		return "false"
	case string:
		return fmt.Sprintf("%q", x)
	case int, int8, int16, int32, int64, uint, uint8, uint16, uint32, uint64, uintptr:
		return fmt.Sprintf("%d", x)
	case *value:
		if x == nil {
			return "nil"
		}
		return "ptr"
	case []value:
		if x == nil {
			return "[]"
		}
	}
	return toString(v)
}

// newInput creates a fresh symbolic input of width w (0 = Bool).
func (w *worker) newInput(name string, width int) *Term {
	if w.local != nil {
		panic(localAbandon{"input inside a summarised callee"})
	}
	n := len(w.inputs)
	clean := strings.Map(func(r rune) rune {
		if r >= 'a' && r <= 'z' || r >= 'A' && r <= 'Z' || r >= '0' && r <= '9' || r == '_' {
			return r
		}
		return '_'
	}, name)
	t := mkVar(width, fmt.Sprintf("in%d_%s", n, clean))
	w.inputs = append(w.inputs, t)
	return t
}
