// Environment models: harness intrinsics (v*), package initialiser policy,
// and models of library functions that cannot be interpreted from their Go
// source (runtime hooks, unsafe, reflection) or whose effect is deliberately
// abstracted (logging, formatting). Every model that is used on a run is
// counted in Result.Stubs and ends up in the evidence file.

package interp

import (
	"fmt"
	"go/token"
	"go/types"
	"strings"

	"golang.org/x/tools/go/ssa"
)

type specialFn func(i *interpreter, fr *frame, fn *ssa.Function, args []value) value

var specials map[string]specialFn

func init() {
	specials = map[string]specialFn{
		"os.Exit": func(i *interpreter, fr *frame, fn *ssa.Function, args []value) value {
			panic(exitEvent{fmt.Sprintf("os.Exit(%v)", args[0])})
		},
		"internal/abi.NoEscape": func(i *interpreter, fr *frame, fn *ssa.Function, args []value) value { return args[0] },
		"internal/abi.Escape":   func(i *interpreter, fr *frame, fn *ssa.Function, args []value) value { return args[0] },
		"(*strings.Builder).String": func(i *interpreter, fr *frame, fn *ssa.Function, args []value) value {
			p := args[0].(*value)
			if p == nil {
				nilDeref()
			}
			st := (*p).(structure)
			b, ok := concreteBytes(st[len(st)-1])
			if !ok {
				unsupported("strings.Builder holding symbolic bytes")
			}
			return string(b)
		},
		"internal/bytealg.MakeNoZero": func(i *interpreter, fr *frame, fn *ssa.Function, args []value) value {
			n := int(asInt64(args[0]))
			out := make([]value, n)
			for j := range out {
				out[j] = uint8(0)
			}
			return out
		},
		"strings.Clone":             func(i *interpreter, fr *frame, fn *ssa.Function, args []value) value { return args[0] },
		"internal/stringslite.Clone": func(i *interpreter, fr *frame, fn *ssa.Function, args []value) value { return args[0] },
		"runtime.Gosched":       stubNil,
		"runtime.GC":            stubNil,
		"runtime.KeepAlive":     stubNil,
		"runtime.SetFinalizer":  stubNil,
		"time.Sleep":            stubNil,
		"(*sync.Mutex).Lock":    mutexLock,
		"(*sync.Mutex).Unlock":  mutexUnlock,
		"(*sync.Mutex).TryLock": mutexTryLock,
		"(*sync.RWMutex).Lock":  mutexLock,
		"(*sync.RWMutex).Unlock": mutexUnlock,
		"(*sync.RWMutex).RLock":  mutexLock,
		"(*sync.RWMutex).RUnlock": mutexUnlock,
		"(*sync.WaitGroup).Add":  stubNil,
		"(*sync.WaitGroup).Done": stubNil,
		"(*sync.WaitGroup).Wait": stubNil,
		"(*sync.Once).Do":        onceDo,
		"(*sync.Map).Load":       syncMapLoad,
		"(*sync.Map).Store":      syncMapStore,
		"(*sync.Map).Delete":     syncMapDelete,
		"(*sync.Map).LoadOrStore": syncMapLoadOrStore,
		"(*sync.Map).LoadAndDelete": syncMapLoadAndDelete,
		"(*sync.Map).Range":      syncMapRange,
		"errors.Is":              errorsIs,
		"errors.As":              errorsAs,
		"fmt.Errorf":             fmtErrorf,
		"fmt.Sprintf":            fmtSprintf,
		"fmt.Sprint":             fmtSprint,
		"fmt.Sprintln":           fmtSprint,
		"fmt.Println":            stubZeroResults,
		"fmt.Printf":             stubZeroResults,
		"fmt.Print":              stubZeroResults,
		"fmt.Fprintf":            stubZeroResults,
		"fmt.Fprintln":           stubZeroResults,
		"fmt.Fprint":             stubZeroResults,
		"log.Println":            stubNil,
		"log.Printf":             stubNil,
		"log.Print":              stubNil,
		"log.Fatal": func(i *interpreter, fr *frame, fn *ssa.Function, args []value) value {
			panic(exitEvent{"log.Fatal"})
		},
		"log.Fatalf": func(i *interpreter, fr *frame, fn *ssa.Function, args []value) value {
			panic(exitEvent{"log.Fatalf"})
		},
		"log.Fatalln": func(i *interpreter, fr *frame, fn *ssa.Function, args []value) value {
			panic(exitEvent{"log.Fatalln"})
		},
		"flag.String":   flagNew,
		"flag.Bool":     flagNew,
		"flag.Int":      flagNew,
		"flag.Duration": flagNew,
		"flag.Var":      stubNil,
		"flag.StringVar": stubNil,
		"flag.BoolVar":   stubNil,
		"math.Float64bits":     func(i *interpreter, fr *frame, fn *ssa.Function, args []value) value { return ext۰math۰Float64bits(fr, args) },
		"math.Float64frombits": func(i *interpreter, fr *frame, fn *ssa.Function, args []value) value { return ext۰math۰Float64frombits(fr, args) },
		"math.Float32bits":     func(i *interpreter, fr *frame, fn *ssa.Function, args []value) value { return ext۰math۰Float32bits(fr, args) },
		"math.Float32frombits": func(i *interpreter, fr *frame, fn *ssa.Function, args []value) value { return ext۰math۰Float32frombits(fr, args) },
		"internal/bytealg.IndexByteString": func(i *interpreter, fr *frame, fn *ssa.Function, args []value) value {
			return strings.IndexByte(args[0].(string), args[1].(byte))
		},
		"internal/bytealg.IndexByte": func(i *interpreter, fr *frame, fn *ssa.Function, args []value) value {
			b := args[0].([]value)
			for j := range b {
				if i.decideValue(eqv(nil, b[j], args[1]), "IndexByte") {
					return j
				}
			}
			return -1
		},
		"internal/bytealg.Equal": func(i *interpreter, fr *frame, fn *ssa.Function, args []value) value {
			return bytesEqual(args[0].([]value), args[1].([]value))
		},
		"bytes.Equal": func(i *interpreter, fr *frame, fn *ssa.Function, args []value) value {
			return bytesEqual(args[0].([]value), args[1].([]value))
		},
		"internal/bytealg.CountString": func(i *interpreter, fr *frame, fn *ssa.Function, args []value) value {
			return strings.Count(args[0].(string), string([]byte{args[1].(byte)}))
		},
		"internal/bytealg.IndexString": func(i *interpreter, fr *frame, fn *ssa.Function, args []value) value {
			return strings.Index(args[0].(string), args[1].(string))
		},
		"internal/stringslite.Index": func(i *interpreter, fr *frame, fn *ssa.Function, args []value) value {
			return strings.Index(args[0].(string), args[1].(string))
		},
		"math/bits.TrailingZeros32": func(i *interpreter, fr *frame, fn *ssa.Function, args []value) value { return bitsTZ(args[0], 32) },
		"math/bits.TrailingZeros64": func(i *interpreter, fr *frame, fn *ssa.Function, args []value) value { return bitsTZ(args[0], 64) },
		"math/bits.TrailingZeros16": func(i *interpreter, fr *frame, fn *ssa.Function, args []value) value { return bitsTZ(args[0], 16) },
		"math/bits.TrailingZeros8":  func(i *interpreter, fr *frame, fn *ssa.Function, args []value) value { return bitsTZ(args[0], 8) },
		"math/bits.LeadingZeros32":  func(i *interpreter, fr *frame, fn *ssa.Function, args []value) value { return bitsLZ(args[0], 32) },
		"math/bits.LeadingZeros64":  func(i *interpreter, fr *frame, fn *ssa.Function, args []value) value { return bitsLZ(args[0], 64) },
		"math/bits.OnesCount32":     func(i *interpreter, fr *frame, fn *ssa.Function, args []value) value { return bitsPop(args[0], 32) },
		"math/bits.OnesCount64":     func(i *interpreter, fr *frame, fn *ssa.Function, args []value) value { return bitsPop(args[0], 64) },
		"context.WithTimeout":  ctxNoDeadline,
		"context.WithDeadline": ctxNoDeadline,
		"context.WithCancel":   ctxNoDeadline,
		"sort.Slice":       sortSlice,
		"sort.SliceStable": sortSlice,
		"strings.Compare": func(i *interpreter, fr *frame, fn *ssa.Function, args []value) value {
			a, aok := args[0].(string)
			b, bok := args[1].(string)
			if aok && bok {
				return strings.Compare(a, b)
			}
			// symbolic: 0 iff equal; the sign of a difference is not modelled (callers test == 0 / != 0)
			if i.decideValue(symStrBinop(token.EQL, args[0], args[1]), "strings.Compare") {
				return 0
			}
			i.w.stubs["strings.Compare on atoms: only equal/unequal is modelled"]++
			return 1
		},
		"internal/bytealg.CompareString": func(i *interpreter, fr *frame, fn *ssa.Function, args []value) value {
			return strings.Compare(concStr(args[0], "CompareString"), concStr(args[1], "CompareString"))
		},
		"internal/bytealg.Compare": func(i *interpreter, fr *frame, fn *ssa.Function, args []value) value {
			a, ok1 := concreteBytes(args[0])
			b, ok2 := concreteBytes(args[1])
			if !ok1 || !ok2 {
				unsupported("bytes.Compare on symbolic bytes")
			}
			return strings.Compare(string(a), string(b))
		},
		"strings.Index": func(i *interpreter, fr *frame, fn *ssa.Function, args []value) value {
			return strings.Index(concStr(args[0], "strings.Index"), concStr(args[1], "strings.Index"))
		},
		"strings.IndexByte": func(i *interpreter, fr *frame, fn *ssa.Function, args []value) value {
			return strings.IndexByte(concStr(args[0], "strings.IndexByte"), args[1].(byte))
		},
		"strings.Count": func(i *interpreter, fr *frame, fn *ssa.Function, args []value) value {
			return strings.Count(concStr(args[0], "strings.Count"), concStr(args[1], "strings.Count"))
		},
		"strings.EqualFold": func(i *interpreter, fr *frame, fn *ssa.Function, args []value) value {
			return strings.EqualFold(concStr(args[0], "strings.EqualFold"), concStr(args[1], "strings.EqualFold"))
		},
		"strings.ToLower": func(i *interpreter, fr *frame, fn *ssa.Function, args []value) value {
			return strings.ToLower(concStr(args[0], "strings.ToLower"))
		},
		"strings.ToUpper": func(i *interpreter, fr *frame, fn *ssa.Function, args []value) value {
			return strings.ToUpper(concStr(args[0], "strings.ToUpper"))
		},
		"strings.TrimSpace": func(i *interpreter, fr *frame, fn *ssa.Function, args []value) value {
			if a, ok := args[0].(symstr); ok {
				return i.symTrimSpace(a)
			}
			return strings.TrimSpace(concStr(args[0], "strings.TrimSpace"))
		},
		"strings.Contains": func(i *interpreter, fr *frame, fn *ssa.Function, args []value) value {
			return strings.Contains(concStr(args[0], "strings.Contains"), concStr(args[1], "strings.Contains"))
		},
		"strings.HasPrefix": func(i *interpreter, fr *frame, fn *ssa.Function, args []value) value {
			return strings.HasPrefix(concStr(args[0], "strings.HasPrefix"), concStr(args[1], "strings.HasPrefix"))
		},
		"strings.HasSuffix": func(i *interpreter, fr *frame, fn *ssa.Function, args []value) value {
			return strings.HasSuffix(concStr(args[0], "strings.HasSuffix"), concStr(args[1], "strings.HasSuffix"))
		},
		"strings.Replace": func(i *interpreter, fr *frame, fn *ssa.Function, args []value) value {
			return strings.Replace(concStr(args[0], "strings.Replace"), concStr(args[1], "strings.Replace"), concStr(args[2], "strings.Replace"), int(asInt64(args[3])))
		},
		"strings.ReplaceAll": func(i *interpreter, fr *frame, fn *ssa.Function, args []value) value {
			return strings.ReplaceAll(concStr(args[0], "strings.ReplaceAll"), concStr(args[1], "strings.ReplaceAll"), concStr(args[2], "strings.ReplaceAll"))
		},
	}
	registerStringStubs()
	registerBStrStubs()
	registerNetStubs()
	registerTimeStubs()
}

func concStr(v value, what string) string {
	s, ok := v.(string)
	if !ok {
		unsupported("%s on a symbolic string", what)
	}
	return s
}

func bytesEqual(a, b []value) value {
	if len(a) != len(b) {
		return false
	}
	var acc value = true
	for j := range a {
		acc = andv(acc, eqv(nil, a[j], b[j]))
		if bb, ok := acc.(bool); ok && !bb {
			return false
		}
	}
	return acc
}

func stubNil(i *interpreter, fr *frame, fn *ssa.Function, args []value) value { return nil }

// stubZeroResults returns the zero value of the function's result type(s).
func stubZeroResults(i *interpreter, fr *frame, fn *ssa.Function, args []value) value {
	res := fn.Signature.Results()
	switch res.Len() {
	case 0:
		return nil
	case 1:
		return zero(res.At(0).Type())
	}
	return zero(res)
}

func flagNew(i *interpreter, fr *frame, fn *ssa.Function, args []value) value {
	// flag.String(name, default, usage) *string: a cell holding the default
	cell := new(value)
	*cell = args[1]
	return cell
}

// callSpecial dispatches intrinsics and models. handled=false means: interpret
// the function's own SSA.
func (i *interpreter) callSpecial(fr *frame, fn *ssa.Function, args []value) (value, bool) {
	name := fn.Name()
	// package initialisers
	if name == "init" && fn.Synthetic != "" && fn.Pkg != nil && fn.Signature.Recv() == nil {
		path := fn.Pkg.Pkg.Path()
		if !i.initPkgs[path] {
			return nil, true // not on the init list: skipped (globals it writes are poisoned)
		}
		i.initRun[fn.Pkg] = true
		return nil, false
	}
	if fn.Pkg != nil && fn.Pkg == i.w.ex.cfg.Pkg && len(name) > 1 && name[0] == 'v' && name[1] >= 'A' && name[1] <= 'Z' {
		if h, ok := intrinsics[name]; ok {
			return h(i, fr, fn, args), true
		}
	}
	full := fn.String()
	if ov, ok := i.overrides[full]; ok && ov != value(fn) {
		i.w.stubs["override "+full]++
		return call(i, fr.caller, 0, ov, args), true
	}
	if h, ok := specials[full]; ok {
		i.w.stubs[full]++
		return h(i, fr, fn, args), true
	}
	// generic instantiations: match on the origin's name
	if o := fn.Origin(); o != nil {
		if h, ok := specials[o.String()]; ok {
			i.w.stubs[o.String()]++
			return h(i, fr, fn, args), true
		}
	}
	if strings.HasPrefix(full, "(*go.uber.org/zap.SugaredLogger).") || strings.HasPrefix(full, "(*go.uber.org/zap.Logger).") {
		i.w.stubs["zap logger methods (no-op; Fatal*/Panic* = exit event)"]++
		if strings.HasPrefix(name, "Fatal") || strings.HasPrefix(name, "Panic") || strings.HasPrefix(name, "DPanic") {
			panic(exitEvent{full})
		}
		res := fn.Signature.Results()
		if res.Len() == 1 && types.Identical(res.At(0).Type(), fn.Signature.Recv().Type()) {
			return args[0], true // With/Named/...: same logger
		}
		return stubZeroResults(i, fr, fn, args), true
	}
	if fn.Pkg != nil {
		switch fn.Pkg.Pkg.Path() {
		case "sync/atomic", "internal/runtime/atomic":
			return i.atomicOp(fn, args), true
		case "github.com/golang/protobuf/proto", "google.golang.org/protobuf/encoding/prototext", "google.golang.org/protobuf/proto":
			// text/wire formatting of protobuf messages (reflection-driven): only
			// used for logging in the code under test
			i.w.stubs["protobuf formatting/marshalling ("+fn.Name()+": zero result)"]++
			return stubZeroResults(i, fr, fn, args), true
		case "reflect":
			unsupported("reflection (%s)", fn.String())
		case "github.com/wmnsk/go-pfcp/internal/logger":
			i.w.stubs["go-pfcp internal logger (no-op)"]++
			return stubZeroResults(i, fr, fn, args), true
		case "github.com/prometheus/client_golang/prometheus", "github.com/prometheus/client_golang/prometheus/promhttp":
			i.w.stubs["prometheus (zero results)"]++
			return stubZeroResults(i, fr, fn, args), true
		}
	}
	return nil, false
}

// ---------------------------------------------------------------------------
// sync

type guardRec struct {
	cell *value // guarded memory cell (nil if obj is used)
	obj  *omap
	mu   *value
	name string
	ro   bool // shared state without a lock: written only before the associations start (any later write is a violation)
}

func mutexLock(i *interpreter, fr *frame, fn *ssa.Function, args []value) value {
	p := args[0].(*value)
	if p == nil {
		nilDeref()
	}
	reader := strings.Contains(fn.String(), "RLock")
	i.maybePreempt(p)
	for i.w.held[p] {
		if i.w.heldBy[p] == i.curG {
			if reader {
				break // recursive read lock: allowed by the model (can deadlock with a writer; not modelled)
			}
			panic(blockEvent{"self-deadlock: Lock of a mutex this goroutine already holds", nil})
		}
		me := i.curG
		me.waitReady = func() bool { return !i.w.held[p] }
		y := i.yield()
		me.waitReady = nil
		if !y {
			panic(blockEvent{"deadlock: mutex held by a goroutine that cannot run", nil})
		}
	}
	i.w.held[p] = true
	i.w.heldBy[p] = i.curG
	return nil
}

func mutexTryLock(i *interpreter, fr *frame, fn *ssa.Function, args []value) value {
	p := args[0].(*value)
	if i.w.held[p] {
		return false
	}
	i.w.held[p] = true
	i.w.heldBy[p] = i.curG
	return true
}

func mutexUnlock(i *interpreter, fr *frame, fn *ssa.Function, args []value) value {
	p := args[0].(*value)
	if p == nil {
		nilDeref()
	}
	if !i.w.held[p] {
		panic(runtimePanic{"sync: unlock of unlocked mutex"})
	}
	delete(i.w.held, p)
	delete(i.w.heldBy, p)
	i.progress++
	// schedules at critical-section granularity: the moment right AFTER a
	// critical section is a decision point too (what a goroutine does with a
	// value it read inside, once others may run: atomicity gaps after release)
	i.maybePreempt(p)
	return nil
}

func onceDo(i *interpreter, fr *frame, fn *ssa.Function, args []value) value {
	p := args[0].(*value)
	m := i.sideMap(p, "once")
	if _, done := i.mapLookup(m, "done"); done {
		// a concurrent caller returns only when the first call has completed
		if _, fin := i.mapLookup(m, "finished"); !fin {
			i.blockUntil(func() bool {
				_, fin := i.mapLookup(m, "finished")
				return fin
			}, "sync.Once.Do (waiting for the first call to complete)", nil)
		}
		return nil
	}
	i.mapInsert(m, "done", true)
	defer func() {
		i.mapInsert(m, "finished", true)
		i.progress++
	}()
	call(i, fr, 0, args[1], nil)
	return nil
}

// sideMap returns the engine map attached to an object address.
func (i *interpreter) sideMap(p *value, kind string) *omap {
	if p == nil {
		nilDeref()
	}
	if m, ok := i.w.side[p]; ok {
		return m
	}
	if m, ok := i.w.sideInit[p]; ok {
		return m
	}
	m := &omap{idx: map[string]*ment{}}
	if i.trailOn {
		i.w.side[p] = m
	} else {
		i.w.sideInit[p] = m
	}
	return m
}

func syncMapLoad(i *interpreter, fr *frame, fn *ssa.Function, args []value) value {
	i.maybePreemptSync()
	m := i.sideMap(args[0].(*value), "sync.Map")
	v, ok := i.mapLookup(m, args[1])
	if !ok {
		return tuple{iface{}, false}
	}
	return tuple{v, true}
}

func syncMapStore(i *interpreter, fr *frame, fn *ssa.Function, args []value) value {
	i.maybePreemptSync()
	m := i.sideMap(args[0].(*value), "sync.Map")
	i.mapInsert(m, args[1], args[2])
	return nil
}

func syncMapDelete(i *interpreter, fr *frame, fn *ssa.Function, args []value) value {
	i.maybePreemptSync()
	m := i.sideMap(args[0].(*value), "sync.Map")
	i.mapDelete(m, args[1])
	return nil
}

func syncMapLoadOrStore(i *interpreter, fr *frame, fn *ssa.Function, args []value) value {
	i.maybePreemptSync()
	m := i.sideMap(args[0].(*value), "sync.Map")
	if v, ok := i.mapLookup(m, args[1]); ok {
		return tuple{v, true}
	}
	i.mapInsert(m, args[1], args[2])
	return tuple{args[2], false}
}

func syncMapLoadAndDelete(i *interpreter, fr *frame, fn *ssa.Function, args []value) value {
	i.maybePreemptSync()
	m := i.sideMap(args[0].(*value), "sync.Map")
	if v, ok := i.mapLookup(m, args[1]); ok {
		i.mapDelete(m, args[1])
		return tuple{v, true}
	}
	return tuple{iface{}, false}
}

func syncMapRange(i *interpreter, fr *frame, fn *ssa.Function, args []value) value {
	i.maybePreemptSync()
	m := i.sideMap(args[0].(*value), "sync.Map")
	ents := m.ents
	for _, e := range ents {
		if e.dead {
			continue
		}
		r := call(i, fr, 0, args[1], []value{e.key, e.val})
		if !i.decideValue(r, "sync.Map.Range") {
			break
		}
	}
	return nil
}

// atomicOp models sync/atomic on boxed cells (single goroutine at a time).
func (i *interpreter) atomicOp(fn *ssa.Function, args []value) value {
	name := fn.Name()
	i.w.stubs["sync/atomic (sequential model)"]++
	recvField := func() *value {
		// methods of atomic.Int32 etc.: receiver is a pointer to a struct whose
		// last field "v" holds the value
		p := args[0].(*value)
		if p == nil {
			nilDeref()
		}
		st := (*p).(structure)
		return &st[len(st)-1]
	}
	if fn.Signature.Recv() != nil {
		cell := recvField()
		switch name {
		case "Load":
			return *cell
		case "Store":
			i.set(cell, args[1])
			return nil
		case "Add":
			n := binop(tokenADD, nil, *cell, args[1])
			i.set(cell, n)
			return n
		case "Swap":
			old := *cell
			i.set(cell, args[1])
			return old
		case "CompareAndSwap":
			if i.decideValue(eqv(nil, *cell, args[1]), "CAS") {
				i.set(cell, args[2])
				return true
			}
			return false
		}
		unsupported("atomic method %s", fn.String())
	}
	p, _ := args[0].(*value)
	if p == nil {
		nilDeref()
	}
	switch {
	case strings.HasPrefix(name, "Load"):
		return *p
	case strings.HasPrefix(name, "Store"):
		i.set(p, args[1])
		return nil
	case strings.HasPrefix(name, "Add"), strings.HasPrefix(name, "Xadd"):
		n := binop(tokenADD, nil, *p, args[1])
		i.set(p, n)
		return n
	case strings.HasPrefix(name, "Swap"), strings.HasPrefix(name, "Xchg"):
		old := *p
		i.set(p, args[1])
		return old
	case strings.HasPrefix(name, "CompareAndSwap"), strings.HasPrefix(name, "Cas"):
		if i.decideValue(eqv(nil, *p, args[1]), "CAS") {
			i.set(p, args[2])
			return true
		}
		return false
	}
	unsupported("atomic function %s", fn.String())
	return nil
}

// ---------------------------------------------------------------------------
// lock discipline (vGuarded)

// inHarness reports whether the instruction being executed belongs to a
// harness function (H_* / v*): oracles may read guarded state without the lock.
func (i *interpreter) inHarness() bool {
	if i.w.cur == nil {
		return false
	}
	fn := i.w.cur.Parent()
	for fn.Parent() != nil {
		fn = fn.Parent()
	}
	if fn.Pkg != i.w.ex.cfg.Pkg {
		return false
	}
	n := fn.Name()
	return strings.HasPrefix(n, "H_") || (len(n) > 1 && n[0] == 'v' && n[1] >= 'A' && n[1] <= 'Z')
}

func (i *interpreter) guardCheck(addr *value, write bool) {
	if len(i.w.guards) == 0 || i.inHarness() {
		return
	}
	for _, g := range i.w.guards {
		if g.cell == addr {
			if g.ro {
				if write {
					i.w.lockViolation(g.name, write)
				}
			} else if !i.w.held[g.mu] {
				i.w.lockViolation(g.name, write)
			}
		}
	}
}

func (i *interpreter) guardCheckObj(m *omap, write bool) {
	if len(i.w.guards) == 0 || i.inHarness() {
		return
	}
	for _, g := range i.w.guards {
		if g.obj != nil && g.obj == m {
			if g.ro {
				if write {
					i.w.lockViolation(g.name, write)
				}
			} else if !i.w.held[g.mu] {
				i.w.lockViolation(g.name, write)
			}
		}
	}
}

func (w *worker) lockViolation(name string, write bool) {
	acc := "read"
	if write {
		acc = "write"
	}
	w.violationWithModel("lock", "unguarded "+acc+" of "+name+" in "+w.siteText(), "shared state "+name+" accessed ("+acc+") without holding its lock", w.currentModel())
}

// ---------------------------------------------------------------------------
// errors / fmt

// errorsIs implements errors.Is without reflection: identity comparison along
// the Unwrap chain (single-error Unwrap and Is methods are honoured).
func errorsIs(i *interpreter, fr *frame, fn *ssa.Function, args []value) value {
	err, target := args[0].(iface), args[1].(iface)
	if err.t == nil || target.t == nil {
		return err.t == nil && target.t == nil
	}
	for depth := 0; depth < 32; depth++ {
		if comparableType(err.t) && comparableType(target.t) {
			if i.decideValue(eqv(types.NewInterfaceType(nil, nil), err, target), "errors.Is") {
				return true
			}
		}
		if m := i.findMethod(err.t, "Is"); m != nil && m.Signature.Params().Len() == 1 {
			r := call(i, fr, 0, m, []value{err.v, target})
			if i.decideValue(r, "errors.Is") {
				return true
			}
		}
		m := i.findMethod(err.t, "Unwrap")
		if m == nil {
			return false
		}
		if m.Signature.Results().Len() != 1 {
			return false
		}
		if _, isSlice := m.Signature.Results().At(0).Type().Underlying().(*types.Slice); isSlice {
			unsupported("errors.Is over a multi-error Unwrap")
		}
		next := call(i, fr, 0, m, []value{err.v}).(iface)
		if next.t == nil {
			return false
		}
		err = next
	}
	unsupported("errors.Is: chain longer than 32")
	return false
}

func comparableType(t types.Type) bool {
	return types.Comparable(t)
}

func (i *interpreter) findMethod(t types.Type, name string) *ssa.Function {
	ms := i.prog.MethodSets.MethodSet(t)
	for k := 0; k < ms.Len(); k++ {
		sel := ms.At(k)
		if sel.Obj().Name() == name {
			return i.prog.MethodValue(sel)
		}
	}
	return nil
}

func errorsAs(i *interpreter, fr *frame, fn *ssa.Function, args []value) value {
	err := args[0].(iface)
	tgt := args[1].(iface) // a pointer to a variable of some type T
	pt, ok := tgt.t.Underlying().(*types.Pointer)
	if !ok {
		unsupported("errors.As with a non-pointer target")
	}
	want := pt.Elem()
	for depth := 0; depth < 32 && err.t != nil; depth++ {
		match := false
		if it, isIface := want.Underlying().(*types.Interface); isIface {
			match = types.Implements(err.t, it)
		} else {
			match = types.Identical(err.t, want)
		}
		if match {
			cell := tgt.v.(*value)
			if _, isIface := want.Underlying().(*types.Interface); isIface {
				i.store(want, cell, err)
			} else {
				i.store(want, cell, err.v)
			}
			return true
		}
		m := i.findMethod(err.t, "Unwrap")
		if m == nil || m.Signature.Results().Len() != 1 {
			return false
		}
		if _, isSlice := m.Signature.Results().At(0).Type().Underlying().(*types.Slice); isSlice {
			unsupported("errors.As over a multi-error Unwrap")
		}
		err = call(i, fr, 0, m, []value{err.v}).(iface)
	}
	return false
}

// fmtErrorf builds a real *fmt.wrapError (when the format has one %w and the
// operand is an error) or *errors.errorString. The message is the format
// string itself: formatting is abstracted, wrapping is exact.
func fmtErrorf(i *interpreter, fr *frame, fn *ssa.Function, args []value) value {
	format, _ := args[0].(string)
	var wrapped *iface
	if strings.Count(format, "%w") == 1 {
		// locate the operand index of %w
		idx := verbIndex(format, "%w")
		ops := args[1].([]value)
		if idx >= 0 && idx < len(ops) {
			if e, ok := ops[idx].(iface); ok && e.t != nil {
				wrapped = &e
			}
		}
	} else if strings.Count(format, "%w") > 1 {
		unsupported("fmt.Errorf with several %%w verbs")
	}
	errorT := types.Universe.Lookup("error").Type()
	_ = errorT
	if wrapped != nil {
		fmtPkg := i.prog.ImportedPackage("fmt")
		wt := fmtPkg.Type("wrapError").Type()
		var cell value = structure{format, *wrapped}
		return iface{t: types.NewPointer(wt), v: &cell}
	}
	errPkg := i.prog.ImportedPackage("errors")
	et := errPkg.Type("errorString").Type()
	var cell value = structure{format}
	return iface{t: types.NewPointer(et), v: &cell}
}

// verbIndex returns the operand index consumed by the first occurrence of verb.
func verbIndex(format, verb string) int {
	n := 0
	for j := 0; j < len(format); j++ {
		if format[j] != '%' {
			continue
		}
		if j+1 < len(format) && format[j+1] == '%' {
			j++
			continue
		}
		// skip flags/width/precision
		k := j + 1
		for k < len(format) && strings.IndexByte("+-# 0123456789.", format[k]) >= 0 {
			k++
		}
		if k < len(format) {
			if format[j:j+1]+format[k:k+1] == verb {
				return n
			}
			n++
			j = k
		}
	}
	return -1
}

func fmtSprintf(i *interpreter, fr *frame, fn *ssa.Function, args []value) value {
	format := args[0].(string)
	ops := args[1].([]value)
	return renderFormat(format, ops)
}

func fmtSprint(i *interpreter, fr *frame, fn *ssa.Function, args []value) value {
	ops := args[0].([]value)
	var parts []string
	for _, o := range ops {
		parts = append(parts, renderOperand(o))
	}
	return strings.Join(parts, " ")
}

// renderFormat renders simple operands (concrete ints, strings, bools);
// anything else prints as a placeholder. Text produced by formatting is never
// relied on by a property; where code uses it as a key the placeholder keeps
// distinct concrete scalars distinct.
func renderFormat(format string, ops []value) string {
	var sb strings.Builder
	n := 0
	for j := 0; j < len(format); j++ {
		if format[j] != '%' {
			sb.WriteByte(format[j])
			continue
		}
		if j+1 < len(format) && format[j+1] == '%' {
			sb.WriteByte('%')
			j++
			continue
		}
		k := j + 1
		for k < len(format) && strings.IndexByte("+-# 0123456789.", format[k]) >= 0 {
			k++
		}
		if k >= len(format) {
			break
		}
		if n < len(ops) {
			sb.WriteString(renderOperand(ops[n]))
			n++
		} else {
			sb.WriteString("%!(MISSING)")
		}
		j = k
	}
	return sb.String()
}

func renderOperand(o value) string {
	if it, ok := o.(iface); ok {
		o = it.v
		if it.t == nil {
			return "<nil>"
		}
	}
	switch x := o.(type) {
	case bool, int, int8, int16, int32, int64, uint, uint8, uint16, uint32, uint64, uintptr, string, float32, float64:
		return fmt.Sprint(x)
	case sym, symstr:
		return "<sym>"
	}
	return "<v>"
}

// sortSlice models sort.Slice / sort.SliceStable (reflection-based swapper)
// by a stable insertion sort driven by the interpreted less function.
func sortSlice(i *interpreter, fr *frame, fn *ssa.Function, args []value) value {
	s, ok := args[0].(iface).v.([]value)
	if !ok {
		unsupported("sort.Slice of a non-slice")
	}
	less := args[1]
	for a := 1; a < len(s); a++ {
		for b := a; b > 0; b-- {
			r := call(i, fr, 0, less, []value{b, b - 1})
			if !i.decideValue(r, "sort.Slice less") {
				break
			}
			// swap through set so that the undo trail sees it; less() reads the slice in place
			x, y := s[b], s[b-1]
			i.set(&s[b], y)
			i.set(&s[b-1], x)
		}
	}
	return nil
}

// math/bits on symbolic operands: branch-free terms (the library versions use
// de Bruijn table lookups, i.e. a symbolic index).
func bitsTZ(x value, w int) value {
	_, t := termOf(x)
	if t.isConst() {
		n := 0
		for n < w && t.k&(1<<uint(n)) == 0 {
			n++
		}
		return n
	}
	r := mkConst(64, uint64(w))
	for b := w - 1; b >= 0; b-- {
		bit := mkNot(mkEq(mkExtract(t, b, b), mkConst(1, 0)))
		r = mkIte(bit, mkConst(64, uint64(b)), r)
	}
	return mkSym(types.Int, r)
}

func bitsLZ(x value, w int) value {
	_, t := termOf(x)
	if t.isConst() {
		n := 0
		for n < w && t.k&(1<<uint(w-1-n)) == 0 {
			n++
		}
		return n
	}
	r := mkConst(64, uint64(w))
	for b := 0; b < w; b++ {
		bit := mkNot(mkEq(mkExtract(t, b, b), mkConst(1, 0)))
		r = mkIte(bit, mkConst(64, uint64(w-1-b)), r)
	}
	return mkSym(types.Int, r)
}

func bitsPop(x value, w int) value {
	_, t := termOf(x)
	r := mkConst(64, 0)
	for b := 0; b < w; b++ {
		r = mkBin(OpAdd, r, mkResize(mkExtract(t, b, b), 64, false))
	}
	return mkSym(types.Int, r)
}

// ctxNoDeadline models context.WithTimeout/WithDeadline/WithCancel: the
// parent context itself and a cancel function that does nothing (deadlines
// never fire: timing is outside every claim).
func ctxNoDeadline(i *interpreter, fr *frame, fn *ssa.Function, args []value) value {
	return tuple{args[0], &nativeFn{name: "cancel", f: func([]value) value { return nil }}}
}
