// Copyright 2013 The Go Authors. All rights reserved.
// Use of this source code is governed by a BSD-style
// license that can be found in the LICENSE file.

// Package interp is a symbolic executor for the SSA representation of Go
// programs. It is a fork of golang.org/x/tools/go/ssa/interp (v0.29.0): the
// instruction semantics, the boxed value representation and the treatment of
// defer/panic/recover are kept; added are symbolic scalars (SMT terms),
// solver-decided branching with replay-based path exploration, engine-level
// maps/channels/mutexes, an undo trail, and explicit classification of target
// run-time errors (index out of range, nil dereference, ...) as target panics.
//
// Anything the engine cannot model raises engineErr and makes the run
// inconclusive; there is no silent default.
package interp

import (
	"fmt"
	"go/token"
	"go/types"
	"runtime"
	"slices"
	"strings"

	"golang.org/x/tools/go/ssa"
)

type continuation int

const (
	kNext continuation = iota
	kReturn
	kJump
)

type methodSet map[string]*ssa.Function

// State of one interpreter instance (one per exploration worker).
type interpreter struct {
	prog               *ssa.Program
	globals            map[*ssa.Global]*value // addresses of global variables
	runtimeErrorString types.Type             // the runtime.errorString type
	sizes              types.Sizes
	w                  *worker
	trail              []undo
	trailOn            bool
	initRun            map[*ssa.Package]bool
	initPkgs           map[string]bool
	initDep            map[*ssa.Global]bool // globals written by a package initialiser
	initScanned        map[*ssa.Package]bool
	top                *frame
	depth              int
	skipGo             map[string]bool
	overrides          map[string]value
	goQueue            []func()
	gors               []*gor
	curG               *gor
	progress           int
	abortAll           bool
	mainWaiting        bool // main is in vSettle / vJoin: not a useful preemption target
	sync               chan struct{}
}

type deferred struct {
	fn    value
	args  []value
	instr *ssa.Defer
	tail  *deferred
}

type frame struct {
	i                *interpreter
	caller           *frame
	fn               *ssa.Function
	block, prevBlock *ssa.BasicBlock
	env              map[ssa.Value]value // dynamic values of SSA variables
	locals           []value
	defers           *deferred
	result           value
	panicking        bool
	panic            interface{}
	phitemps         []value // temporaries for parallel phi assignment
	callInstr        ssa.Instruction
	depth            int
}

func mustDeref(t types.Type) types.Type {
	if p, ok := t.Underlying().(*types.Pointer); ok {
		return p.Elem()
	}
	panic(fmt.Sprintf("mustDeref: %s is not a pointer", t))
}

func newInterpreter(prog *ssa.Program, w *worker) *interpreter {
	i := &interpreter{
		prog:        prog,
		globals:     make(map[*ssa.Global]*value),
		sizes:       &types.StdSizes{WordSize: 8, MaxAlign: 8},
		w:           w,
		initRun:     map[*ssa.Package]bool{},
		initPkgs:    map[string]bool{},
		initDep:     map[*ssa.Global]bool{},
		initScanned: map[*ssa.Package]bool{},
		skipGo:      map[string]bool{},
		sync:        make(chan struct{}),
		overrides:   map[string]value{},
	}
	if runtimePkg := prog.ImportedPackage("runtime"); runtimePkg != nil {
		i.runtimeErrorString = runtimePkg.Type("errorString").Object().Type()
	}
	return i
}

func (i *interpreter) resetPathState() {
	i.top = nil
	i.depth = 0
	i.goQueue = nil
	i.initSched()
}

// global returns the address of a global, allocating it (zeroed) on first
// use. Reading a global whose package initialiser writes it, while that
// initialiser has not been run, is an engine error.
func (i *interpreter) global(g *ssa.Global) *value {
	if r, ok := i.globals[g]; ok {
		return r
	}
	if g.Pkg != nil && !i.initRun[g.Pkg] {
		i.scanInit(g.Pkg)
		if i.initDep[g] {
			if pt, ok := mustDeref(g.Type()).Underlying().(*types.Pointer); ok && strings.Contains(pt.Elem().String(), "go.uber.org/zap.") {
				// loggers: a non-nil dummy; every logger method is a model
				var obj value = zero(pt.Elem())
				var cell value = &obj
				i.globals[g] = &cell
				return &cell
			}
			if gm, ok := globalModels[g.Pkg.Pkg.Path()+"."+g.Name()]; ok {
				cell := gm(i, g)
				i.globals[g] = &cell
				return &cell
			}
			// poisoned: taking the address is fine, reading the content is not
			var cell value = poisoned{g.Pkg.Pkg.Path() + "." + g.Name()}
			i.globals[g] = &cell
			return &cell
		}
	}
	cell := zero(mustDeref(g.Type()))
	i.globals[g] = &cell
	return &cell
}

// scanInit records which globals of pkg are referenced by its initialiser.
func (i *interpreter) scanInit(pkg *ssa.Package) {
	if i.initScanned[pkg] {
		return
	}
	i.initScanned[pkg] = true
	var visit func(fn *ssa.Function)
	seen := map[*ssa.Function]bool{}
	visit = func(fn *ssa.Function) {
		if fn == nil || seen[fn] {
			return
		}
		seen[fn] = true
		for _, b := range fn.Blocks {
			for _, in := range b.Instrs {
				for _, op := range in.Operands(nil) {
					if g, ok := (*op).(*ssa.Global); ok && g.Pkg == pkg {
						if g.Name() != "init$guard" {
							i.initDep[g] = true
						}
					}
				}
				if c, ok := in.(ssa.CallInstruction); ok {
					if f := c.Common().StaticCallee(); f != nil && f.Pkg == pkg && strings.HasPrefix(f.Name(), "init#") {
						visit(f)
					}
				}
			}
		}
		for _, an := range fn.AnonFuncs {
			visit(an)
		}
	}
	visit(pkg.Func("init"))
}

// runInits runs the whitelisted package initialisers (in dependency order,
// which is the order the root initialiser calls them).
func (i *interpreter) runInits(cfg Config) (msg string) {
	for _, p := range cfg.InitPkgs {
		i.initPkgs[p] = true
	}
	defer func() {
		if r := recover(); r != nil {
			switch p := r.(type) {
			case engineErr:
				msg = p.msg + " @ " + i.w.where()
			case targetPanic:
				msg = "panic: " + toString(p.v)
			case runtimePanic:
				msg = "panic: " + p.msg + " @ " + i.w.where() + " stack=" + strings.Join(i.w.panicStack, " < ")
			default:
				buf := make([]byte, 1<<14)
				n := runtime.Stack(buf, false)
				msg = fmt.Sprint(r) + " @ " + i.w.where() + "\n" + string(buf[:n])
			}
		}
	}()
	i.w.item = &workItem{}
	i.w.m = newModel()
	i.initSched()
	call(i, nil, token.NoPos, cfg.Pkg.Func("init"), nil)
	return ""
}

func (fr *frame) get(key ssa.Value) value {
	switch key := key.(type) {
	case nil:
		// Hack; simplifies handling of optional attributes
		// such as ssa.Slice.{Low,High}.
		return nil
	case *ssa.Function, *ssa.Builtin:
		return key
	case *ssa.Const:
		return constValue(key)
	case *ssa.Global:
		return fr.i.global(key)
	}
	if r, ok := fr.env[key]; ok {
		return r
	}
	panic(fmt.Sprintf("get: no value for %T: %v", key, key.Name()))
}

// runDefer runs a deferred call d.
// It always returns normally, but may set or clear fr.panic.
func (fr *frame) runDefer(d *deferred) {
	var ok bool
	defer func() {
		if !ok {
			// Deferred call created a new state of panic.
			r := recover()
			if isEnginePanic(r) {
				panic(r)
			}
			fr.panicking = true
			fr.panic = r
		}
	}()
	call(fr.i, fr, d.instr.Pos(), d.fn, d.args)
	ok = true
}

// isEnginePanic reports whether r is a control-flow panic of the engine
// itself (which target code must not be able to recover from).
func isEnginePanic(r interface{}) bool {
	switch r.(type) {
	case targetPanic, runtimePanic:
		return false
	}
	return true
}

// runDefers executes fr's deferred function calls in LIFO order.
//
// On entry, fr.panicking indicates a state of panic; if
// true, fr.panic contains the panic value.
//
// On completion, if a deferred call started a panic, or if no
// deferred call recovered from a previous state of panic, then
// runDefers itself panics after the last deferred call has run.
//
// If there was no initial state of panic, or it was recovered from,
// runDefers returns normally.
func (fr *frame) runDefers() {
	for d := fr.defers; d != nil; d = d.tail {
		fr.runDefer(d)
	}
	fr.defers = nil
	if fr.panicking {
		panic(fr.panic) // new panic, or still panicking
	}
}

// lookupMethod returns the method set for type typ.
func lookupMethod(i *interpreter, typ types.Type, meth *types.Func) *ssa.Function {
	return i.prog.LookupMethod(typ, meth.Pkg(), meth.Name())
}

// nativeFn is a function value made by the engine (e.g. the no-op
// CancelFunc of a stubbed context).
type nativeFn struct {
	name string
	f    func(args []value) value
}

// poisoned is the content of a global whose package initialiser was not run.
type poisoned struct{ name string }

func checkPoison(p *value) {
	if b, ok := (*p).(poisoned); ok {
		unsupported("global %s is written by its package initialiser, which is not on the init list", b.name)
	}
}

func nilDeref() {
	panic(runtimePanic{"invalid memory address or nil pointer dereference"})
}

// visitInstr interprets a single ssa.Instruction within the activation
// record frame.  It returns a continuation value indicating where to
// read the next instruction from.
func visitInstr(fr *frame, instr ssa.Instruction) continuation {
	i := fr.i
	w := i.w
	w.cur = instr
	w.steps++
	if w.steps > w.ex.cfg.MaxSteps {
		panic(pathInconclusive{fmt.Sprintf("step budget of %d instructions exhausted on one path (unwinding failure) @ %s", w.ex.cfg.MaxSteps, w.where())})
	}
	if i.trailOn {
		m := w.fcov[fr.fn]
		if m == nil {
			m = map[ssa.Instruction]bool{}
			w.fcov[fr.fn] = m
		}
		m[instr] = true
	}
	switch instr := instr.(type) {
	case *ssa.DebugRef:
		// no-op

	case *ssa.UnOp:
		fr.env[instr] = i.unop(instr, fr.get(instr.X))

	case *ssa.BinOp:
		x, y := fr.get(instr.X), fr.get(instr.Y)
		if instr.Op == token.QUO || instr.Op == token.REM {
			i.checkDivisor(y)
		}
		fr.env[instr] = binop(instr.Op, instr.X.Type(), x, y)

	case *ssa.Call:
		fn, args := prepareCall(fr, &instr.Call)
		fr.callInstr = instr
		fr.env[instr] = call(fr.i, fr, instr.Pos(), fn, args)
		w.cur = instr

	case *ssa.ChangeInterface:
		fr.env[instr] = fr.get(instr.X)

	case *ssa.ChangeType:
		fr.env[instr] = fr.get(instr.X) // (can't fail)

	case *ssa.Convert:
		fr.env[instr] = conv(instr.Type(), instr.X.Type(), fr.get(instr.X))

	case *ssa.SliceToArrayPointer:
		fr.env[instr] = sliceToArrayPointer(instr.Type(), instr.X.Type(), fr.get(instr.X))

	case *ssa.MakeInterface:
		fr.env[instr] = iface{t: instr.X.Type(), v: fr.get(instr.X)}

	case *ssa.Extract:
		fr.env[instr] = fr.get(instr.Tuple).(tuple)[instr.Index]

	case *ssa.Slice:
		fr.env[instr] = i.slice(fr.get(instr.X), fr.get(instr.Low), fr.get(instr.High), fr.get(instr.Max))

	case *ssa.Return:
		switch len(instr.Results) {
		case 0:
		case 1:
			fr.result = fr.get(instr.Results[0])
		default:
			var res []value
			for _, r := range instr.Results {
				res = append(res, fr.get(r))
			}
			fr.result = tuple(res)
		}
		fr.block = nil
		return kReturn

	case *ssa.RunDefers:
		fr.runDefers()

	case *ssa.Panic:
		panic(targetPanic{fr.get(instr.X)})

	case *ssa.Send:
		i.chanSend(fr.get(instr.Chan).(*chanv), fr.get(instr.X))

	case *ssa.Store:
		addr := fr.get(instr.Addr).(*value)
		if addr == nil {
			nilDeref()
		}
		i.guardCheck(addr, true)
		i.store(mustDeref(instr.Addr.Type()), addr, fr.get(instr.Val))

	case *ssa.If:
		succ := 1
		switch c := fr.get(instr.Cond).(type) {
		case bool:
			if c {
				succ = 0
			}
		case sym:
			if w.decide(c.e) {
				succ = 0
			}
		default:
			panic(fmt.Sprintf("If: condition is %T", c))
		}
		fr.prevBlock, fr.block = fr.block, fr.block.Succs[succ]
		return kJump

	case *ssa.Jump:
		fr.prevBlock, fr.block = fr.block, fr.block.Succs[0]
		return kJump

	case *ssa.Defer:
		fn, args := prepareCall(fr, &instr.Call)
		defers := &fr.defers
		if into := fr.get(instr.DeferStack); into != nil {
			defers = into.(**deferred)
		}
		*defers = &deferred{
			fn:    fn,
			args:  args,
			instr: instr,
			tail:  *defers,
		}

	case *ssa.Go:
		fn, args := prepareCall(fr, &instr.Call)
		i.spawn(fr, instr, fn, args)

	case *ssa.MakeChan:
		n := i.concretize(fr.get(instr.Size), "makechan")
		fr.env[instr] = &chanv{cap: int(n)}

	case *ssa.Alloc:
		var addr *value
		if instr.Heap {
			// new
			addr = new(value)
			fr.env[instr] = addr
		} else {
			// local
			addr = fr.env[instr].(*value)
		}
		*addr = zero(mustDeref(instr.Type()))

	case *ssa.MakeSlice:
		c := i.concretize(fr.get(instr.Cap), "makeslice.cap")
		l := i.concretize(fr.get(instr.Len), "makeslice.len")
		if l < 0 || c < l || c > 1<<24 {
			panic(runtimePanic{fmt.Sprintf("makeslice: len %d / cap %d out of range", l, c)})
		}
		slice := make([]value, c)
		tElt := instr.Type().Underlying().(*types.Slice).Elem()
		for i := range slice {
			slice[i] = zero(tElt)
		}
		fr.env[instr] = slice[:l]

	case *ssa.MakeMap:
		fr.env[instr] = makeMap(instr.Type().Underlying().(*types.Map).Key(), 0)

	case *ssa.Range:
		if m, ok := fr.get(instr.X).(*omap); ok && m != nil {
			i.guardCheckObj(m, false)
		}
		it := rangeIter(fr.get(instr.X), instr.X.Type())
		if b, ok := it.(*bstrIter); ok {
			b.i = i
		}
		fr.env[instr] = it

	case *ssa.Next:
		fr.env[instr] = fr.get(instr.Iter).(iter).next()

	case *ssa.FieldAddr:
		p := fr.get(instr.X).(*value)
		if p == nil {
			nilDeref()
		}
		checkPoison(p)
		fr.env[instr] = &(*p).(structure)[instr.Field]

	case *ssa.Field:
		fr.env[instr] = fr.get(instr.X).(structure)[instr.Field]

	case *ssa.IndexAddr:
		x := fr.get(instr.X)
		switch x := x.(type) {
		case []value:
			idx := i.index(fr.get(instr.Index), len(x))
			fr.env[instr] = &x[idx]
		case *value: // *array
			if x == nil {
				nilDeref()
			}
			checkPoison(x)
			a := (*x).(array)
			if _, symIdx := fr.get(instr.Index).(sym); symIdx && onlyLoaded(instr) && len(a) <= 256 {
				// &a[i] with a symbolic i that is only ever dereferenced for reading
				// (a table look-up): no fork, the load becomes an ite over the cells
				fr.env[instr] = lazyCell{a: a, idx: fr.get(instr.Index)}
				break
			}
			idx := i.index(fr.get(instr.Index), len(a))
			fr.env[instr] = &a[idx]
		default:
			panic(fmt.Sprintf("unexpected x type in IndexAddr: %T", x))
		}

	case *ssa.Index:
		x := fr.get(instr.X)
		switch x := x.(type) {
		case array:
			fr.env[instr] = i.indexRead(x, fr.get(instr.Index))
		case string:
			idx := i.index(fr.get(instr.Index), len(x))
			fr.env[instr] = x[idx]
		case symstr:
			ts, ok := bstrTerms(x)
			if !ok {
				unsupported("indexing a symbolic string")
			}
			fr.env[instr] = byteVal(ts[i.index(fr.get(instr.Index), len(ts))])
		default:
			panic(fmt.Sprintf("unexpected x type in Index: %T", x))
		}

	case *ssa.Lookup:
		x := fr.get(instr.X)
		switch xs := x.(type) {
		case string:
			idx := i.index(fr.get(instr.Index), len(xs))
			fr.env[instr] = xs[idx]
		case symstr:
			ts, ok := bstrTerms(xs)
			if !ok {
				unsupported("indexing a symbolic string")
			}
			fr.env[instr] = byteVal(ts[i.index(fr.get(instr.Index), len(ts))])
		default:
			if m, ok := x.(*omap); ok && m != nil {
				i.guardCheckObj(m, false)
			}
			fr.env[instr] = i.lookup(instr, x, fr.get(instr.Index))
		}

	case *ssa.MapUpdate:
		m := fr.get(instr.Map).(*omap)
		i.guardCheckObj(m, true)
		i.mapInsert(m, fr.get(instr.Key), fr.get(instr.Value))

	case *ssa.TypeAssert:
		fr.env[instr] = typeAssert(fr.i, instr, fr.get(instr.X).(iface))

	case *ssa.MakeClosure:
		var bindings []value
		for _, binding := range instr.Bindings {
			bindings = append(bindings, fr.get(binding))
		}
		fr.env[instr] = &closure{instr.Fn.(*ssa.Function), bindings}

	case *ssa.Phi:
		panic("unreachable: phis are processed at block entry")

	case *ssa.Select:
		fr.env[instr] = i.doSelect(fr, instr)

	default:
		panic(fmt.Sprintf("unexpected instruction: %T", instr))
	}

	return kNext
}

// checkDivisor raises the run-time panic for an integer division by zero.
func (i *interpreter) checkDivisor(y value) {
	switch d := y.(type) {
	case sym:
		if i.w.decide(mkEq(d.e, mkConst(d.e.w, 0))) {
			panic(runtimePanic{"integer divide by zero"})
		}
	case float32, float64, complex64, complex128:
	default:
		if _, c, ok := intKind(y); ok && c == 0 {
			panic(runtimePanic{"integer divide by zero"})
		}
	}
}

// concretize turns an integer value into a host int64, forking over the
// feasible values of a symbolic one.
func (i *interpreter) concretize(v value, what string) int64 {
	if s, ok := v.(sym); ok {
		c := i.w.pick(s.e)
		return asInt64(concreteOf(s.k, c))
	}
	return asInt64(v)
}

// index checks 0 <= idx < n (raising the Go run-time panic otherwise) and
// returns the concrete index.
// lazyCell is &a[idx] for a symbolic idx whose only uses are loads.
type lazyCell struct {
	a   array
	idx value
}

// onlyLoaded reports whether every use of the address is a plain load.
func onlyLoaded(instr *ssa.IndexAddr) bool {
	refs := instr.Referrers()
	if refs == nil || len(*refs) == 0 {
		return false
	}
	for _, r := range *refs {
		u, ok := r.(*ssa.UnOp)
		if !ok || u.Op != token.MUL {
			return false
		}
	}
	return true
}

func (i *interpreter) index(idx value, n int) int64 {
	if s, ok := idx.(sym); ok {
		// decide the bounds check first (one fork), then concretise
		var inb *Term
		nn := mkConst(s.e.w, uint64(n))
		if s.e.w < 63 && !kindSigned(s.k) && uint64(n) >= uint64(1)<<uint(s.e.w) {
			// every value of the index type is in range (e.g. a byte indexing a [256]T)
			return i.concretize(idx, "index")
		}
		if kindSigned(s.k) {
			inb = mkAnd(mkBin(OpSle, mkConst(s.e.w, 0), s.e), mkBin(OpSlt, s.e, nn))
		} else {
			inb = mkBin(OpUlt, s.e, nn)
		}
		if !i.w.decide(inb) {
			panic(runtimePanic{fmt.Sprintf("index out of range [symbolic] with length %d", n)})
		}
		return i.concretize(idx, "index")
	}
	k := asInt64(idx)
	if k < 0 || k >= int64(n) {
		panic(runtimePanic{fmt.Sprintf("index out of range [%d] with length %d", k, n)})
	}
	return k
}

// indexRead reads a[idx]; for a symbolic index into an array of scalars the
// result is an ite chain instead of a fork.
func (i *interpreter) indexRead(a array, idx value) value {
	s, ok := idx.(sym)
	if !ok {
		return a[i.index(idx, len(a))]
	}
	scalar := len(a) > 0 && len(a) <= 256
	var k types.BasicKind
	for j, e := range a {
		ek, _, isInt := intKind(e)
		if _, isSymv := e.(sym); !isInt && !isSymv {
			scalar = false
			break
		}
		if j == 0 {
			k = ek
		} else if ek != k {
			scalar = false
			break
		}
	}
	if !scalar {
		return a[i.index(idx, len(a))]
	}
	nn := mkConst(s.e.w, uint64(len(a)))
	var inb *Term
	if kindSigned(s.k) {
		inb = mkAnd(mkBin(OpSle, mkConst(s.e.w, 0), s.e), mkBin(OpSlt, s.e, nn))
	} else {
		inb = mkBin(OpUlt, s.e, nn)
	}
	if s.e.w < 63 && !kindSigned(s.k) && uint64(len(a)) >= uint64(1)<<uint(s.e.w) {
		inb = tTrue // every value of the index type is in range
	}
	if !inb.isConst() || inb.k == 0 {
		if !i.w.decide(inb) {
			panic(runtimePanic{fmt.Sprintf("index out of range [symbolic] with length %d", len(a))})
		}
	}
	_, r := termOf(a[len(a)-1])
	for j := len(a) - 2; j >= 0; j-- {
		_, ej := termOf(a[j])
		r = mkIte(mkEq(s.e, mkConst(s.e.w, uint64(j))), ej, r)
	}
	return mkSym(k, r)
}

// decideValue resolves a bool-or-symbolic-Bool value.
func (i *interpreter) decideValue(v value, what string) bool {
	switch c := v.(type) {
	case bool:
		return c
	case sym:
		return i.w.decide(c.e)
	}
	panic(fmt.Sprintf("decideValue(%s): %T", what, v))
}

// spawn handles a go statement: the goroutine is registered with the baton
// scheduler (sched.go); callees the harness declared as non-terminating
// service loops are recorded and not run.
func (i *interpreter) spawn(fr *frame, instr *ssa.Go, fn value, args []value) {
	name := ""
	switch f := fn.(type) {
	case *ssa.Function:
		name = f.String()
	case *closure:
		name = f.Fn.String()
	}
	if i.skipGo[name] || i.skipGo["*"] {
		i.w.stubs["go "+name+" (service loop: not run)"]++
		return
	}
	i.w.stubs["go "+name+" (run under the baton scheduler, one schedule)"]++
	i.spawnGoroutine(name, instr.Pos(), fn, args)
}

func (i *interpreter) doSelect(fr *frame, instr *ssa.Select) value {
	type cs struct {
		idx  int
		ch   *chanv
		send bool
	}
	i.maybePreemptSync()
	askedEarly := false
	for {
		var ready []cs
		var timers []cs
		for k, st := range instr.States {
			ch, _ := fr.get(st.Chan).(*chanv)
			if ch == nil {
				continue
			}
			if st.Dir == types.SendOnly {
				if ch.closed {
					panic(runtimePanic{"send on closed channel"})
				}
				if ch.canSend() {
					ready = append(ready, cs{k, ch, true})
				}
			} else {
				if len(ch.buf) > 0 || ch.closed {
					ready = append(ready, cs{k, ch, false})
				} else if ch.timer {
					timers = append(timers, cs{k, ch, false})
				}
			}
		}
		chosen := -1
		var recv value
		recvOk := false
		switch {
		case len(ready) > 0:
			c := ready[0]
			if i.w.preemptChans && i.w.local == nil {
				// Go picks one of the ready cases at random: fork over which
				for k := 0; k+1 < len(ready); k++ {
					t := i.w.newInput("select_pick", 1)
					if i.w.decideFresh(t) {
						break
					}
					c = ready[k+1]
				}
			}
			chosen = c.idx
			i.curG.noPreempt++
			if c.send {
				i.chanSend(c.ch, fr.get(instr.States[c.idx].Send))
			} else {
				recv, recvOk = i.chanRecv(c.ch, instr.States[c.idx].Chan.Type().Underlying().(*types.Chan).Elem())
			}
			i.curG.noPreempt--
		case !instr.Blocking:
			chosen = -1
		default:
			// nothing ready: let the other goroutines run first; a timer fires
			// only when nobody else can make progress - or, when schedules are
			// explored, EARLY as a scheduling decision that costs one preemption
			// (asked once per execution of the select)
			if len(timers) > 0 && !askedEarly && i.timerMayFireEarly() {
				askedEarly = true
				t := i.w.newInput("timer_fires_early", 1)
				if i.w.decideFresh(t) {
					i.w.preemptLeft--
					i.w.preempted++
					c := timers[0]
					chosen = c.idx
					i.progress++
					recv, recvOk = zero(instr.States[c.idx].Chan.Type().Underlying().(*types.Chan).Elem()), true
					break
				}
			}
			i.curG.timerWait = len(timers) > 0
			me := i.curG
			me.waitReady = func() bool {
				for _, st := range instr.States {
					ch, _ := fr.get(st.Chan).(*chanv)
					if ch == nil {
						continue
					}
					if st.Dir == types.SendOnly {
						if ch.closed || ch.canSend() {
							return true
						}
					} else if len(ch.buf) > 0 || ch.closed {
						return true
					}
				}
				return false
			}
			yielded := i.yield()
			me.waitReady = nil
			i.curG.timerWait = false
			if yielded {
				continue
			}
			if len(timers) == 0 {
				panic(blockEvent{"select with no ready case", nil})
			}
			c := timers[0]
			chosen = c.idx
			i.progress++ // a timer fired: that is progress
			i.curG.noPreempt++
			{ me := i.curG; defer func() { me.noPreempt-- }() }
			recv, recvOk = i.chanRecv(c.ch, instr.States[c.idx].Chan.Type().Underlying().(*types.Chan).Elem())
		}
		r := tuple{chosen, recvOk}
		for k, st := range instr.States {
			if st.Dir == types.RecvOnly {
				var v value
				if k == chosen && recvOk {
					v = recv
				} else {
					v = zero(st.Chan.Type().Underlying().(*types.Chan).Elem())
				}
				r = append(r, v)
			}
		}
		return r
	}
}

// prepareCall determines the function value and argument values for a
// function call in a Call, Go or Defer instruction, performing
// interface method lookup if needed.
func prepareCall(fr *frame, call *ssa.CallCommon) (fn value, args []value) {
	v := fr.get(call.Value)
	if call.Method == nil {
		// Function call.
		fn = v
	} else {
		// Interface method invocation.
		recv := v.(iface)
		if recv.t == nil {
			nilDeref()
		}
		if f := lookupMethod(fr.i, recv.t, call.Method); f == nil {
			// Unreachable in well-typed programs.
			panic(fmt.Sprintf("method set for dynamic type %v does not contain %s", recv.t, call.Method))
		} else {
			fn = f
		}
		args = append(args, recv.v)
	}
	for _, arg := range call.Args {
		args = append(args, fr.get(arg))
	}
	return
}

// call interprets a call to a function (function, builtin or closure)
// fn with arguments args, returning its result.
// callpos is the position of the callsite.
func call(i *interpreter, caller *frame, callpos token.Pos, fn value, args []value) value {
	switch fn := fn.(type) {
	case *ssa.Function:
		if fn == nil {
			nilDeref()
		}
		return callSSA(i, caller, callpos, fn, args, nil)
	case *closure:
		return callSSA(i, caller, callpos, fn.Fn, args, fn.Env)
	case *ssa.Builtin:
		if caller == nil {
			caller = &frame{i: i}
		}
		return callBuiltin(caller, callpos, fn, args)
	case *nativeFn:
		return fn.f(args)
	}
	panic(fmt.Sprintf("cannot call %T", fn))
}

// callSSA interprets a call to function fn with arguments args,
// and lexical environment env, returning its result.
// callpos is the position of the callsite.
func callSSA(i *interpreter, caller *frame, callpos token.Pos, fn *ssa.Function, args []value, env []value) value {
	fr := &frame{
		i:      i,
		caller: caller, // for panic/recover
		fn:     fn,
	}
	if fn.Parent() == nil {
		if r, handled := i.callSpecial(fr, fn, args); handled {
			return r
		}
	}
	if fn.Blocks == nil {
		if fn.Synthetic != "" && fn.Origin() == nil && false {
			_ = fn
		}
		unsupported("call of %s, which has no Go body and no model", fn.String())
	}

	// generic function body?
	if fn.TypeParams().Len() > 0 && len(fn.TypeArgs()) == 0 {
		panic("interp requires ssa.BuilderMode to include InstantiateGenerics to execute generics")
	}
	if r, ok := i.trySummarize(caller, fn, args, env); ok {
		return r
	}
	return callSSAbody(i, caller, fn, args, env)
}

// callSSAbody interprets the body of fn.
func callSSAbody(i *interpreter, caller *frame, fn *ssa.Function, args []value, env []value) value {
	fr := &frame{
		i:      i,
		caller: caller, // for panic/recover
		fn:     fn,
	}
	fr.depth = i.depth + 1
	i.depth = fr.depth
	if i.depth > 2000 {
		panic(pathInconclusive{"call depth exceeds 2000 @ " + i.w.where()})
	}
	saveTop := i.top
	i.top = fr

	fr.env = make(map[ssa.Value]value)
	fr.block = fn.Blocks[0]
	fr.locals = make([]value, len(fn.Locals))
	for i, l := range fn.Locals {
		fr.locals[i] = zero(mustDeref(l.Type()))
		fr.env[l] = &fr.locals[i]
	}
	for i, p := range fn.Params {
		fr.env[p] = args[i]
	}
	for i, fv := range fn.FreeVars {
		fr.env[fv] = env[i]
	}
	for fr.block != nil {
		runFrame(fr)
	}
	i.depth = fr.depth - 1
	i.top = saveTop
	return fr.result
}

// runFrame executes SSA instructions starting at fr.block and
// continuing until a return, a panic, or a recovered panic.
//
// After a panic, runFrame panics.
//
// After a normal return, fr.result contains the result of the call
// and fr.block is nil.
//
// A recovered panic in a function without named return parameters
// (NRPs) becomes a normal return of the zero value of the function's
// result type.
//
// After a recovered panic in a function with NRPs, fr.result is
// undefined and fr.block contains the block at which to resume
// control.
func runFrame(fr *frame) {
	defer func() {
		if fr.block == nil {
			return // normal return
		}
		r := recover()
		if isEnginePanic(r) {
			// not a panic of the target program: unwind the engine
			panic(r)
		}
		fr.panicking = true
		fr.panic = r
		if fr.i.w.panicStack == nil {
			fr.i.w.panicStack = fr.i.stackTrace()
			fr.i.w.panicAt = fr.i.w.where()
		}
		fr.runDefers()
		// the panic was recovered
		fr.i.w.panicStack = nil
		fr.i.top = fr
		fr.i.depth = fr.depth
		fr.block = fr.fn.Recover
	}()

	for {
		nonPhis := executePhis(fr)
		for _, instr := range nonPhis {
			if visitInstr(fr, instr) == kReturn {
				return
			}
			// Inv: kNext (continue) or kJump (last instr)
		}
	}
}

// executePhis executes the phi-nodes at the start of the current
// block and returns the non-phi instructions.
func executePhis(fr *frame) []ssa.Instruction {
	firstNonPhi := -1
	for i, instr := range fr.block.Instrs {
		if _, ok := instr.(*ssa.Phi); !ok {
			firstNonPhi = i
			break
		}
	}
	// Inv: 0 <= firstNonPhi; every block contains a non-phi.

	nonPhis := fr.block.Instrs[firstNonPhi:]
	if firstNonPhi > 0 {
		phis := fr.block.Instrs[:firstNonPhi]
		// Execute parallel assignment of phis.
		//
		// See "the swap problem" in Briggs et al's "Practical Improvements
		// to the Construction and Destruction of SSA Form" for discussion.
		predIndex := slices.Index(fr.block.Preds, fr.prevBlock)
		fr.phitemps = fr.phitemps[:0]
		for _, phi := range phis {
			phi := phi.(*ssa.Phi)
			fr.phitemps = append(fr.phitemps, fr.get(phi.Edges[predIndex]))
		}
		for i, phi := range phis {
			fr.env[phi.(*ssa.Phi)] = fr.phitemps[i]
		}
	}
	return nonPhis
}

// doRecover implements the recover() built-in.
func doRecover(caller *frame) value {
	// recover() must be exactly one level beneath the deferred
	// function (two levels beneath the panicking function) to
	// have any effect.  Thus we ignore both "defer recover()" and
	// "defer f() -> g() -> recover()".
	if caller != nil && !caller.panicking &&
		caller.caller != nil && caller.caller.panicking {
		caller.caller.panicking = false
		p := caller.caller.panic
		caller.caller.panic = nil

		switch p := p.(type) {
		case targetPanic:
			// The target program explicitly called panic().
			return p.v
		case runtimePanic:
			return iface{caller.i.runtimeErrorString, "runtime error: " + p.msg}
		default:
			panic(fmt.Sprintf("unexpected panic type %T in target call to recover()", p))
		}
	}
	return iface{}
}

// stackTrace returns the interpreted call stack, innermost first.
func (i *interpreter) stackTrace() []string {
	var out []string
	for fr := i.top; fr != nil && len(out) < 12; fr = fr.caller {
		out = append(out, fr.fn.String())
	}
	return out
}
