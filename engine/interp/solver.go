// A pipe to an incremental SMT solver (z3 -in by default).
//
// One process per worker, kept alive for the whole run. Every path runs in
// one (push)/(pop) frame; every query is (push)(assert c)(check-sat)(pop).
// Every non-leaf term that is sent is given a name with define-fun so that
// the text stays linear in the size of the DAG. Any "(error" line or an
// "unknown" answer is reported as such and never read as sat or unsat.

package interp

import (
	"bufio"
	"fmt"
	"io"
	"os"
	"os/exec"
	"strconv"
	"strings"
	"time"
)

var slowLog = os.Getenv("VERIF_SLOWLOG") != ""

type satResult int

const (
	resUnsat satResult = iota
	resSat
	resUnknown
)

func (r satResult) String() string {
	switch r {
	case resSat:
		return "sat"
	case resUnsat:
		return "unsat"
	}
	return "unknown"
}

type solver struct {
	cmd      *exec.Cmd
	in       io.WriteCloser
	out      *bufio.Reader
	names    map[*Term]string // terms defined in the current path frame
	declared map[string]bool  // variables / UFs declared in the current path frame
	strlits  map[string]string
	nextID   int
	log      io.Writer

	aux       func() (bv []*Term, str []*Term) // auxiliary terms whose model values are read with every model
	strFuncs  map[string]int                   // string-function UFs declared on this path -> result width
	scopes    [][]*Term // terms named inside nested scopes (dropped on popScope)
	scopeDecl [][]string

	trace     []string
	frame     []string // commands of the current path frame
	qdepth    int      // push depth (1 = path frame)
	OneShots  int
	oneShotLog []string
	pending   int    // commands sent whose acknowledgement has not been read yet
	broken    string // first error reported by the solver for a non-query command (sticky until resetPath)

	Queries   int
	Time      time.Duration
	Unknowns  int
	timeoutMS int
	lastErr   string
	argv      []string
}

func solverArgv() []string {
	if s := os.Getenv("VERIF_SOLVER"); s != "" {
		return strings.Fields(s)
	}
	return []string{"z3", "-in"}
}

func newSolver(timeoutMS int) (*solver, error) {
	s := &solver{timeoutMS: timeoutMS, argv: solverArgv()}
	if p := os.Getenv("VERIF_SMTLOG"); p != "" {
		f, err := os.OpenFile(fmt.Sprintf("%s.%d", p, time.Now().UnixNano()), os.O_CREATE|os.O_WRONLY|os.O_TRUNC, 0o644)
		if err == nil {
			s.log = f
		}
	}
	if err := s.start(); err != nil {
		return nil, err
	}
	return s, nil
}

func (s *solver) start() error {
	s.cmd = exec.Command(s.argv[0], s.argv[1:]...)
	in, err := s.cmd.StdinPipe()
	if err != nil {
		return err
	}
	out, err := s.cmd.StdoutPipe()
	if err != nil {
		return err
	}
	s.cmd.Stderr = os.Stderr
	if err := s.cmd.Start(); err != nil {
		return err
	}
	s.in = in
	s.out = bufio.NewReaderSize(out, 1<<16)
	s.names = make(map[*Term]string)
	s.declared = make(map[string]bool)
	s.strlits = make(map[string]string)
	s.strFuncs = make(map[string]int)
	// every command is acknowledged ("success" or an error): the reader counts
	// acknowledgements, so an error in any command is seen and attributed, and
	// the exchange can never get out of step
	io.WriteString(s.in, "(set-option :print-success true)\n")
	s.pending = 1
	if strings.Contains(s.argv[0], "z3") {
		s.send(fmt.Sprintf("(set-option :timeout %d)", s.timeoutMS))
	}
	s.send("(set-option :produce-models true)")
	s.send("(declare-sort Str 0)")
	s.send("(push 1)")
	return nil
}

func (s *solver) close() {
	if s.cmd != nil {
		s.in.Close()
		s.cmd.Process.Kill()
		s.cmd.Wait()
		s.cmd = nil
	}
}

var debugTrace = os.Getenv("VERIF_DEBUG") != ""

func (s *solver) send(line string) {
	if debugTrace {
		s.trace = append(s.trace, line)
	}
	// commands of the path frame (outside query frames) are kept so that a
	// query the incremental solver cannot decide can be re-posed one-shot
	switch {
	case strings.HasPrefix(line, "(push"):
		s.qdepth++
	case strings.HasPrefix(line, "(pop"):
		s.qdepth--
	default:
		if s.qdepth == 1 {
			s.frame = append(s.frame, line)
		}
	}
	if s.log != nil {
		fmt.Fprintln(s.log, line)
	}
	io.WriteString(s.in, line)
	io.WriteString(s.in, "\n")
	s.pending++
}

// query sends a command whose answer is a result (check-sat, get-value), after
// reading the acknowledgements of everything sent before it.
func (s *solver) query(line string) {
	if debugTrace {
		s.trace = append(s.trace, line)
	}
	s.drain()
	if s.log != nil {
		fmt.Fprintln(s.log, line)
	}
	io.WriteString(s.in, line)
	io.WriteString(s.in, "\n")
}

// drain reads one acknowledgement per pending command.
func (s *solver) drain() {
	for s.pending > 0 {
		l := s.readLine()
		if l == "" {
			continue
		}
		s.pending--
		if l == "success" {
			continue
		}
		if strings.HasPrefix(l, "(error") {
			// multi-line errors: read until parentheses balance
			depth := strings.Count(l, "(") - strings.Count(l, ")")
			for depth > 0 {
				m := s.readLine()
				l += " " + m
				depth += strings.Count(m, "(") - strings.Count(m, ")")
			}
			if s.broken == "" {
				s.broken = l
			}
			s.lastErr = l
			continue
		}
		// unexpected text: treat as an error
		if s.broken == "" {
			s.broken = "unexpected solver output: " + l
		}
	}
}

// readLine reads one line of solver output.
func (s *solver) readLine() string {
	l, err := s.out.ReadString('\n')
	if err != nil {
		s.lastErr = "solver pipe: " + err.Error()
		return "(error \"" + s.lastErr + "\")"
	}
	l = strings.TrimSpace(l)
	if s.log != nil {
		fmt.Fprintln(s.log, "; -> "+l)
	}
	return l
}

// resetPath discards everything asserted/defined for the previous path.
func (s *solver) resetPath() {
	s.send("(pop 1)")
	s.send("(push 1)")
	s.drain()
	s.broken = ""
	s.trace = s.trace[:0]
	s.frame = s.frame[:0]
	s.names = make(map[*Term]string)
	s.declared = make(map[string]bool)
	s.strlits = make(map[string]string)
	s.strFuncs = make(map[string]int)
	s.scopes = nil
	s.scopeDecl = nil
	s.nextID = 0
}

// pushScope opens a nested frame inside the path frame (local exploration).
func (s *solver) pushScope() {
	s.send("(push 1)")
	s.scopes = append(s.scopes, nil)
	s.scopeDecl = append(s.scopeDecl, nil)
}

func (s *solver) popScope() {
	s.send("(pop 1)")
	n := len(s.scopes) - 1
	for _, t := range s.scopes[n] {
		delete(s.names, t)
	}
	for _, d := range s.scopeDecl[n] {
		delete(s.declared, d)
		delete(s.strlits, d)
		delete(s.strFuncs, d)
	}
	s.scopes = s.scopes[:n]
	s.scopeDecl = s.scopeDecl[:n]
}

func (s *solver) noteName(t *Term) {
	if n := len(s.scopes); n > 0 {
		s.scopes[n-1] = append(s.scopes[n-1], t)
	}
}

func (s *solver) noteDecl(name string) {
	if n := len(s.scopeDecl); n > 0 {
		s.scopeDecl[n-1] = append(s.scopeDecl[n-1], name)
	}
}

// define makes sure t (and all its subterms) are known to the solver in the
// path frame and returns the text that denotes t.
func (s *solver) define(t *Term) string {
	switch t.op {
	case OpConst:
		return constSMT(t.w, t.k)
	case OpVar:
		if !s.declared[t.name] {
			s.declared[t.name] = true
			s.noteDecl(t.name)
			s.send(fmt.Sprintf("(declare-const %s %s)", t.name, sortName(t.w)))
		}
		return t.name
	}
	if n, ok := s.names[t]; ok {
		return n
	}
	if t.op == OpStrLit {
		n, ok := s.strlits[t.name]
		if !ok {
			n = fmt.Sprintf("lit%d", len(s.strlits))
			s.send(fmt.Sprintf("(declare-const %s Str)", n))
			// all interned literals are pairwise distinct
			for _, other := range s.strlits {
				s.send(fmt.Sprintf("(assert (not (= %s %s)))", n, other))
			}
			s.strlits[t.name] = n
			s.noteDecl(t.name)
			for f, w := range s.strFuncs {
				s.litAxiom(f, w, t.name, n)
			}
		}
		s.names[t] = n
		s.noteName(t)
		return n
	}
	// iterative post-order to avoid deep recursion on long chains
	type fr struct {
		t    *Term
		done bool
	}
	stack := []fr{{t, false}}
	for len(stack) > 0 {
		top := &stack[len(stack)-1]
		x := top.t
		if _, ok := s.names[x]; ok || x.op == OpConst {
			stack = stack[:len(stack)-1]
			continue
		}
		if x.op == OpVar || x.op == OpStrLit {
			s.define(x)
			stack = stack[:len(stack)-1]
			continue
		}
		if !top.done {
			top.done = true
			x.children(func(c *Term) {
				if c.op == OpConst {
					return
				}
				if _, ok := s.names[c]; !ok {
					stack = append(stack, fr{c, false})
				}
			})
			continue
		}
		stack = stack[:len(stack)-1]
		if x.op == OpUF && !s.declared[x.name] {
			s.declared[x.name] = true
			s.noteDecl(x.name)
			var sb strings.Builder
			for i, w := range x.argw {
				if i > 0 {
					sb.WriteByte(' ')
				}
				sb.WriteString(sortName(w))
			}
			s.send(fmt.Sprintf("(declare-fun %s (%s) %s)", x.name, sb.String(), sortName(x.w)))
			if isStrFunc(x.name) && len(x.argw) == 1 && x.argw[0] == wStr {
				s.strFuncs[x.name] = x.w
				for lit, n := range s.strlits {
					s.litAxiom(x.name, x.w, lit, n)
				}
			}
		}
		var sb strings.Builder
		x.write(&sb, func(c *Term) (string, bool) {
			if c.op == OpStrLit {
				return s.define(c), true
			}
			n, ok := s.names[c]
			return n, ok
		})
		s.nextID++
		n := "t" + strconv.Itoa(s.nextID)
		s.send(fmt.Sprintf("(define-fun %s () %s %s)", n, sortName(x.w), sb.String()))
		s.names[x] = n
		s.noteName(x)
	}
	return s.names[t]
}

// litAxiom fixes the value of a string function on a literal to the natively
// computed one.
func (s *solver) litAxiom(f string, w int, lit, litName string) {
	v, _, ok := litFuncValue(f, lit)
	if !ok {
		return
	}
	s.send(fmt.Sprintf("(assert (= (%s %s) %s))", f, litName, constSMT(w, v)))
}

// assert adds t to the path frame permanently (until resetPath).
func (s *solver) assert(t *Term) {
	if t.isConst() && t.k != 0 {
		return
	}
	s.send("(assert " + s.define(t) + ")")
}

func (s *solver) readResult() satResult {
	for {
		l := s.readLine()
		switch {
		case l == "sat":
			return resSat
		case l == "unsat":
			return resUnsat
		case l == "unknown":
			s.Unknowns++
			return resUnknown
		case strings.HasPrefix(l, "(error"):
			s.lastErr = l
			s.Unknowns++
			// after an error the rest of the exchange is unreliable: the
			// caller treats this as unknown; try to resynchronise.
			return resUnknown
		case l == "":
			continue
		default:
			// unexpected output (e.g. warnings): keep reading
			if strings.HasPrefix(l, "timeout") {
				s.Unknowns++
				return resUnknown
			}
		}
	}
}

// check decides satisfiability of (path frame ∧ extra). extra may be nil.
// When wantModel is set and the answer is sat, the values of vars are read.
func (s *solver) check(extra *Term, vars []*Term, wantModel bool) (satResult, *model) {
	start := time.Now()
	defer func() {
		d := time.Since(start)
		s.Time += d
		s.Queries++
		if slowLog && d > 300*time.Millisecond {
			fmt.Fprintf(os.Stderr, "slow query %.2fs model=%v extra=%v\n", d.Seconds(), wantModel, extra != nil)
		}
	}()
	var name string
	if extra != nil {
		if extra.isConst() {
			if extra.k == 0 {
				return resUnsat, nil
			}
			extra = nil
		} else {
			name = s.define(extra)
		}
	}
	if wantModel {
		for _, v := range vars {
			s.define(v)
		}
		if s.aux != nil {
			// name auxiliary terms outside the query frame (names made inside it would be popped)
			a, b := s.aux()
			for _, t := range a {
				s.define(t)
			}
			for _, t := range b {
				s.define(t)
			}
		}
	}
	s.send("(push 1)")
	if extra != nil {
		s.send("(assert " + name + ")")
	}
	s.query("(check-sat)")
	r := s.readResult()
	if s.broken != "" {
		s.lastErr = s.broken
		r = resUnknown
	}
	var m *model
	if r == resSat && wantModel {
		m = s.getModel(vars)
		if m == nil {
			r = resUnknown
		}
	}
	s.send("(pop 1)")
	return r, m
}

// getModel reads the values of the given bit-vector/Bool variables.
func (s *solver) getModel(vars []*Term) *model {
	m := newModel()
	m.home = s
	var bv []*Term
	for _, v := range vars {
		if v.w != wStr {
			bv = append(bv, v)
		}
	}
	const chunk = 200
	for i := 0; i < len(bv); i += chunk {
		j := i + chunk
		if j > len(bv) {
			j = len(bv)
		}
		var sb strings.Builder
		sb.WriteString("(get-value (")
		for _, v := range bv[i:j] {
			sb.WriteString(v.name)
			sb.WriteByte(' ')
		}
		sb.WriteString("))")
		s.query(sb.String())
		txt := s.readSexp()
		if strings.HasPrefix(txt, "(error") {
			s.lastErr = txt
			return nil
		}
		if !parseValues(txt, m.bv) {
			s.lastErr = "cannot parse get-value answer: " + txt
			return nil
		}
	}
	var auxBV, auxStr []*Term
	if s.aux != nil {
		auxBV, auxStr = s.aux()
	}
	for _, t := range auxBV {
		if t.isConst() {
			m.tv[t] = t.k
			continue
		}
		n := s.define(t)
		s.query("(get-value (" + n + "))")
		txt := s.readSexp()
		one := map[string]uint64{}
		if !parseValues(txt, one) {
			s.lastErr = "cannot parse get-value answer: " + txt
			return nil
		}
		for _, v := range one {
			m.tv[t] = v
		}
	}
	if !s.strModel(vars, auxStr, m) {
		return nil
	}
	return m
}

// evalTerms asks the solver for the values of arbitrary terms under the
// current model (must directly follow a sat answer inside the same frame).
func (s *solver) readSexp() string {
	var sb strings.Builder
	depth := 0
	started := false
	for {
		l := s.readLine()
		sb.WriteString(l)
		sb.WriteByte(' ')
		for _, c := range l {
			if c == '(' {
				depth++
				started = true
			} else if c == ')' {
				depth--
			}
		}
		if started && depth <= 0 {
			break
		}
		if !started && l != "" {
			break
		}
	}
	return sb.String()
}

// parseValues parses "((x #x01) (y true) ...)" into m.
func parseValues(txt string, m map[string]uint64) bool {
	toks := tokenize(txt)
	// expect ( ( name value ) ... )
	i := 0
	if i >= len(toks) || toks[i] != "(" {
		return false
	}
	i++
	for i < len(toks) && toks[i] == "(" {
		i++
		if i+1 >= len(toks) {
			return false
		}
		name := toks[i]
		i++
		var val uint64
		switch {
		case toks[i] == "true":
			val = 1
			i++
		case toks[i] == "false":
			val = 0
			i++
		case strings.HasPrefix(toks[i], "#x"):
			v, err := strconv.ParseUint(toks[i][2:], 16, 64)
			if err != nil {
				return false
			}
			val = v
			i++
		case strings.HasPrefix(toks[i], "#b"):
			v, err := strconv.ParseUint(toks[i][2:], 2, 64)
			if err != nil {
				return false
			}
			val = v
			i++
		case toks[i] == "(":
			// (_ bvN w)
			if i+4 < len(toks) && toks[i+1] == "_" && strings.HasPrefix(toks[i+2], "bv") {
				v, err := strconv.ParseUint(toks[i+2][2:], 10, 64)
				if err != nil {
					return false
				}
				val = v
				i += 5
			} else {
				return false
			}
		default:
			return false
		}
		if i >= len(toks) || toks[i] != ")" {
			return false
		}
		i++
		m[name] = val
	}
	return i < len(toks) && toks[i] == ")"
}

func tokenize(s string) []string {
	var toks []string
	cur := strings.Builder{}
	flush := func() {
		if cur.Len() > 0 {
			toks = append(toks, cur.String())
			cur.Reset()
		}
	}
	for _, c := range s {
		switch c {
		case '(', ')':
			flush()
			toks = append(toks, string(c))
		case ' ', '\t', '\n', '\r':
			flush()
		default:
			cur.WriteRune(c)
		}
	}
	flush()
	return toks
}

// getValues evaluates arbitrary terms under a model of (frame ∧ extra).
// Used to read observable values that involve uninterpreted functions.
func (s *solver) getValues(extra *Term, terms []*Term) (satResult, []uint64) {
	start := time.Now()
	defer func() { s.Time += time.Since(start); s.Queries++ }()
	names := make([]string, len(terms))
	for i, t := range terms {
		names[i] = s.define(t)
	}
	var en string
	if extra != nil {
		en = s.define(extra)
	}
	s.send("(push 1)")
	if extra != nil {
		s.send("(assert " + en + ")")
	}
	s.query("(check-sat)")
	r := s.readResult()
	if s.broken != "" {
		s.lastErr = s.broken
		r = resUnknown
	}
	var vals []uint64
	if r == resSat {
		vals = make([]uint64, len(terms))
		for i, n := range names {
			if terms[i].isConst() {
				vals[i] = terms[i].k
				continue
			}
			s.query("(get-value (" + n + "))")
			txt := s.readSexp()
			m := map[string]uint64{}
			if !parseValues(txt, m) {
				s.lastErr = "cannot parse get-value answer: " + txt
				r = resUnknown
				break
			}
			for _, v := range m {
				vals[i] = v
			}
		}
	}
	s.send("(pop 1)")
	return r, vals
}

// strModel reads the values of Str-sorted inputs: the solver's abstract value
// of each input is compared with the abstract values of the interned
// literals; an input equal to a literal gets that literal, any other gets a
// fresh string (equal abstract values get equal fresh strings).
func (s *solver) strModel(vars []*Term, aux []*Term, m *model) bool {
	var sv []*Term
	seen := map[*Term]bool{}
	for _, v := range vars {
		if v.w == wStr && !seen[v] {
			sv = append(sv, v)
			seen[v] = true
		}
	}
	for _, v := range aux {
		if v.w == wStr && !seen[v] && v.op != OpStrLit {
			sv = append(sv, v)
			seen[v] = true
		}
	}
	if len(sv) == 0 {
		return true
	}
	names := make([]string, len(sv))
	for j, v := range sv {
		names[j] = s.define(v)
	}
	var sb strings.Builder
	sb.WriteString("(get-value (")
	for _, n := range names {
		sb.WriteString(n)
		sb.WriteByte(' ')
	}
	var lits []string
	for lit, n := range s.strlits {
		lits = append(lits, lit)
		sb.WriteString(n)
		sb.WriteByte(' ')
	}
	sb.WriteString("))")
	s.query(sb.String())
	txt := s.readSexp()
	toks := tokenize(txt)
	// ((name val) ...), val is a single token such as Str!val!0
	vals := map[string]string{}
	for i := 1; i+3 < len(toks); i += 4 {
		if toks[i] != "(" || toks[i+3] != ")" {
			s.lastErr = "cannot parse Str model: " + txt
			return false
		}
		vals[toks[i+1]] = toks[i+2]
	}
	byAbs := map[string]string{}
	for _, lit := range lits {
		byAbs[vals[s.strlits[lit]]] = lit
	}
	for j, v := range sv {
		abs := vals[names[j]]
		val := "\x00fresh:" + abs
		if lit, ok := byAbs[abs]; ok {
			val = lit
		}
		m.ts[v] = val
		if v.op == OpVar {
			m.str[v.name] = val
		}
	}
	return true
}

// oneShot re-poses (path frame AND extra) to fresh, non-incremental solver
// processes (full tactic pipelines): z3, then z3-new, then cvc5. The first
// definite answer wins. Used when the incremental solver answers unknown.
func (s *solver) oneShot(extra *Term, timeoutS int) satResult {
	start := time.Now()
	defer func() { s.Time += time.Since(start); s.OneShots++ }()
	name := s.define(extra) // may add definitions to the frame
	var sb strings.Builder
	sb.WriteString("(declare-sort Str 0)\n")
	for _, l := range s.frame {
		if strings.HasPrefix(l, "(set-option") {
			continue
		}
		sb.WriteString(l)
		sb.WriteByte('\n')
	}
	sb.WriteString("(assert " + name + ")\n(check-sat)\n")
	f, err := os.CreateTemp("", "verif-oneshot-*.smt2")
	if err != nil {
		return resUnknown
	}
	defer os.Remove(f.Name())
	f.WriteString(sb.String())
	f.Close()
	// order: the integer encoding of bit-vector arithmetic first (it decides
	// multiply/divide-by-constant kernels in milliseconds where bit-blasting
	// does not finish), then the bit-blasting back ends
	cmds := [][]string{
		{"cvc5", "--lang=smt2", "--solve-bv-as-int=sum", "--tlimit=20000", f.Name()},
		{"z3", fmt.Sprintf("-T:%d", timeoutS), f.Name()},
		{"z3-new", fmt.Sprintf("-T:%d", timeoutS), f.Name()},
		{"cvc5", "--lang=smt2", fmt.Sprintf("--tlimit=%d", timeoutS*1000), f.Name()},
	}
	for _, c := range cmds {
		out, _ := exec.Command(c[0], c[1:]...).Output()
		txt := strings.TrimSpace(string(out))
		s.oneShotLog = append(s.oneShotLog, c[0]+" "+strings.Join(c[1:len(c)-1], " ")+": "+firstWord(txt))
		if strings.Contains(txt, "(error") {
			continue
		}
		switch {
		case strings.HasPrefix(txt, "unsat"):
			return resUnsat
		case strings.HasPrefix(txt, "sat"):
			return resSat
		}
	}
	return resUnknown
}

func firstWord(s string) string {
	if i := strings.IndexAny(s, " \n"); i > 0 {
		return s[:i]
	}
	return s
}
