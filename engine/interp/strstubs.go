// Contract stubs for string-consuming library functions on symbolic strings
// (atoms), and the inversion that turns a solver model back into concrete
// text for the native replay. See DESIGN.md §3.6.
//
// A symbolic string is a term of the uninterpreted sort Str: an input atom
// (vStr), a token/part made by a stub, a literal, strcat(a,b), ipstr(ip32) or
// b2sN(bytes). Library functions on atoms are uninterpreted functions of the
// atom (same atom, same answer); every such function is also applied to every
// string literal the path meets, with its natively computed value, so that an
// atom that equals a literal behaves exactly like the literal (congruence).

package interp

import (
	"fmt"
	"go/types"
	"net"
	"strconv"
	"strings"
	"time"

	"golang.org/x/tools/go/ssa"
)

type splitKey struct {
	t   *Term
	sep string
}

type strFact struct {
	kind string // fields, split, parsecidr, hostcidr, parseuint, parseip, parsedur
	src  *Term
	outs []*Term
	sep  string
	n    int
}

func (w *worker) noteStrFact(kind string, src *Term, outs ...*Term) {
	w.strFacts = append(w.strFacts, strFact{kind: kind, src: src, outs: outs})
	for _, o := range outs {
		if o.w == wStr {
			w.auxStr = append(w.auxStr, o)
		} else {
			w.auxBV = append(w.auxBV, o)
		}
	}
	if src != nil && src.w == wStr {
		w.auxStr = append(w.auxStr, src)
	}
}

func (w *worker) freshStr(prefix string) *Term {
	w.nstr++
	t := mkVar(wStr, fmt.Sprintf("%s%d", prefix, w.nstr))
	w.auxStr = append(w.auxStr, t)
	return t
}

// litFuncs: native evaluation of the string functions on literals.
// The key is the UF name; the result is the value the UF must have on lit.
func litFuncValue(name, lit string) (uint64, int, bool) {
	switch {
	case name == "strlen":
		return uint64(len(lit)), 64, true
	case name == "padded":
		return b2u(strings.TrimSpace(lit) != lit), 0, true
	case strings.HasPrefix(name, "pu_"):
		// pu_<base>_<bits>_(ok|val)
		f := strings.Split(name, "_")
		if len(f) != 4 {
			return 0, 0, false
		}
		base, _ := strconv.Atoi(f[1])
		bits, _ := strconv.Atoi(f[2])
		v, err := strconv.ParseUint(lit, base, bits)
		if f[3] == "ok" {
			return b2u(err == nil), 0, true
		}
		if err != nil {
			return 0, 64, false // value irrelevant when not ok
		}
		return v, 64, true
	case strings.HasPrefix(name, "parsecidr_"):
		ip, ipn, err := net.ParseCIDR(lit)
		if err == nil && ip.To4() == nil {
			err = fmt.Errorf("not v4") // only IPv4 text is modelled as ok
		}
		switch name {
		case "parsecidr_ok":
			return b2u(err == nil), 0, true
		case "parsecidr_ip":
			if err != nil {
				return 0, 32, false
			}
			i4 := ip.To4()
			return uint64(i4[0])<<24 | uint64(i4[1])<<16 | uint64(i4[2])<<8 | uint64(i4[3]), 32, true
		case "parsecidr_plen":
			if err != nil {
				return 0, 8, false
			}
			ones, _ := ipn.Mask.Size()
			return uint64(ones), 8, true
		}
	case strings.HasPrefix(name, "host_"):
		ip, _, err := net.ParseCIDR(lit + "/32")
		if err == nil && ip.To4() == nil {
			err = fmt.Errorf("not v4")
		}
		if name == "host_ok" {
			return b2u(err == nil), 0, true
		}
		if err != nil {
			return 0, 32, false
		}
		i4 := ip.To4()
		return uint64(i4[0])<<24 | uint64(i4[1])<<16 | uint64(i4[2])<<8 | uint64(i4[3]), 32, true
	case strings.HasPrefix(name, "parseip_"):
		ip := net.ParseIP(lit)
		ok := ip != nil && ip.To4() != nil
		if name == "parseip_ok" {
			return b2u(ok), 0, true
		}
		if !ok {
			return 0, 32, false
		}
		i4 := ip.To4()
		return uint64(i4[0])<<24 | uint64(i4[1])<<16 | uint64(i4[2])<<8 | uint64(i4[3]), 32, true
	case strings.HasPrefix(name, "parsedur_"):
		d, err := time.ParseDuration(lit)
		if name == "parsedur_ok" {
			return b2u(err == nil), 0, true
		}
		if err != nil {
			return 0, 64, false
		}
		return uint64(d), 64, true
	}
	return 0, 0, false
}

func isStrFunc(name string) bool {
	return name == "strlen" || strings.HasPrefix(name, "pu_") || strings.HasPrefix(name, "parsecidr_") ||
		strings.HasPrefix(name, "host_") || strings.HasPrefix(name, "parseip_") || strings.HasPrefix(name, "parsedur_")
}

func registerStringStubs() {
	specials["strings.Fields"] = func(i *interpreter, fr *frame, fn *ssa.Function, args []value) value {
		switch s := args[0].(type) {
		case string:
			f := strings.Fields(s)
			out := make([]value, len(f))
			for j := range f {
				out[j] = f[j]
			}
			return out
		case symstr:
			if isBStr(s) {
				// a string with symbolic bytes: the real library code runs on it
				return callSSAbody(i, fr.caller, fn, args, nil)
			}
			return i.symFields(s)
		}
		panic("strings.Fields: bad argument")
	}
	specials["strings.Split"] = func(i *interpreter, fr *frame, fn *ssa.Function, args []value) value {
		sep, ok := args[1].(string)
		if !ok {
			unsupported("strings.Split with a symbolic separator")
		}
		switch s := args[0].(type) {
		case string:
			f := strings.Split(s, sep)
			out := make([]value, len(f))
			for j := range f {
				out[j] = f[j]
			}
			return out
		case symstr:
			if isBStr(s) {
				return callSSAbody(i, fr.caller, fn, args, nil)
			}
			return i.symSplit(s, sep)
		}
		panic("strings.Split: bad argument")
	}
	specials["strconv.ParseUint"] = func(i *interpreter, fr *frame, fn *ssa.Function, args []value) value {
		errT := fn.Signature.Results().At(1).Type()
		base, bits := int(asInt64(args[1])), int(asInt64(args[2]))
		switch s := args[0].(type) {
		case string:
			v, err := strconv.ParseUint(s, base, bits)
			if err != nil {
				return tuple{v, i.opaqueError("strconv.ParseUint: invalid syntax or out of range")}
			}
			return tuple{v, zero(errT)}
		case symstr:
			if isBStr(s) {
				return callSSAbody(i, fr.caller, fn, args, nil)
			}
			if bits == 0 {
				bits = 64
			}
			okT := mkUF(fmt.Sprintf("pu_%d_%d_ok", base, bits), 0, s.e)
			valT := mkUF(fmt.Sprintf("pu_%d_%d_val", base, bits), 64, s.e)
			i.w.noteStrFact("parseuint", s.e, okT, valT)
			i.w.strFacts[len(i.w.strFacts)-1].n = base
			if !i.w.decide(okT) {
				return tuple{uint64(0), i.opaqueError("strconv.ParseUint: invalid syntax or out of range")}
			}
			if bits < 64 {
				i.w.assume(mkBin(OpUlt, valT, mkConst(64, uint64(1)<<uint(bits))))
			}
			return tuple{mkSym(types.Uint64, valT), zero(errT)}
		}
		panic("strconv.ParseUint: bad argument")
	}
	specials["strconv.Atoi"] = func(i *interpreter, fr *frame, fn *ssa.Function, args []value) value {
		errT := fn.Signature.Results().At(1).Type()
		if isBStr(args[0]) {
			return callSSAbody(i, fr.caller, fn, args, nil)
		}
		s, ok := args[0].(string)
		if !ok {
			unsupported("strconv.Atoi on a symbolic string")
		}
		v, err := strconv.Atoi(s)
		if err != nil {
			return tuple{v, i.opaqueError("strconv.Atoi: invalid syntax")}
		}
		return tuple{v, zero(errT)}
	}
	specials["strconv.Itoa"] = func(i *interpreter, fr *frame, fn *ssa.Function, args []value) value {
		if v, ok := args[0].(int); ok {
			return strconv.Itoa(v)
		}
		return symstr{mkUF("itoa", wStr, args[0].(sym).e)}
	}
}

// symFields models strings.Fields on an atom: the number of tokens is
// concretised (0..MaxTokens), the tokens are fresh atoms different from "".
func (i *interpreter) symFields(s symstr) value {
	w := i.w
	if memo, ok := w.fieldsMemo[s.e]; ok {
		// same atom, same tokens (the caller gets its own slice)
		return append([]value{}, memo...)
	}
	k := w.ex.cfg.MaxTokens
	if k == 0 {
		k = 9
	}
	nT := w.newInput("aux_nfields", 64) // internal input: part of every model, skipped by the native replay
	w.assume(mkBin(OpUle, nT, mkConst(64, uint64(k))))
	n := int(w.pick(nT))
	out := make([]value, n)
	toks := make([]*Term, n)
	empty := mkStrLit("")
	if n >= 1 {
		w.assume(mkNot(mkEq(s.e, empty))) // a string with a token is not the empty string
	}
	for j := 0; j < n; j++ {
		toks[j] = w.freshStr("tok")
		out[j] = symstr{toks[j]}
		w.assume(mkNot(mkEq(toks[j], empty)))
	}
	w.strFacts = append(w.strFacts, strFact{kind: "fields", src: s.e, outs: toks, n: n})
	w.auxStr = append(w.auxStr, s.e)
	w.stubs[fmt.Sprintf("strings.Fields on an atom: <= %d fresh non-empty tokens", k)]++
	w.fieldsMemo[s.e] = append([]value{}, out...)
	return out
}

// symTrimSpace models strings.TrimSpace on an atom: either the atom has no
// surrounding white space and is returned as it is, or it has - then the
// result is a fresh atom without any, and the padded original is refused by
// every parser of the model (net.ParseCIDR, net.ParseIP and time.ParseDuration
// accept no surrounding blanks). The inversion renders a padded atom as a
// blank followed by the text of its trimmed form.
func (i *interpreter) symTrimSpace(s symstr) value {
	w := i.w
	for _, f := range w.strFacts {
		if f.kind == "trim" && f.src == s.e {
			if f.n == 0 {
				return s
			}
			return symstr{f.outs[1]}
		}
	}
	padded := mkUF("padded", 0, s.e)
	w.stubs["strings.TrimSpace on an atom: padded or not; a padded atom fails every parser of the model"]++
	if !w.decide(padded) {
		w.strFacts = append(w.strFacts, strFact{kind: "trim", src: s.e, outs: []*Term{padded, s.e}, n: 0})
		return s
	}
	t := w.freshStr("trimmed")
	w.assume(mkNot(mkEq(s.e, t)))
	w.assume(mkNot(mkUF("padded", 0, t)))
	for _, okf := range []string{"parsecidr_ok", "parseip_ok", "parsedur_ok"} {
		w.assume(mkNot(mkUF(okf, 0, s.e)))
	}
	w.strFacts = append(w.strFacts, strFact{kind: "trim", src: s.e, outs: []*Term{padded, t}, n: 1})
	w.auxStr = append(w.auxStr, s.e)
	return symstr{t}
}

func sepCannotOccurInDottedQuad(sep string) bool {
	for _, c := range sep {
		if c == '.' || (c >= '0' && c <= '9') {
			return false
		}
	}
	return sep != ""
}

// symSplit models strings.Split(atom, sep): 1, 2 or "3 or more" parts.
func (i *interpreter) symSplit(s symstr, sep string) value {
	w := i.w
	if s.e.op == OpUF && s.e.name == "ipstr" && sepCannotOccurInDottedQuad(sep) {
		return []value{s}
	}
	key := splitKey{s.e, sep}
	if memo, ok := w.splitMemo[key]; ok {
		return append([]value{}, memo...)
	}
	nT := w.newInput("aux_nsplit", 64)
	w.assume(mkBin(OpUle, mkConst(64, 1), nT))
	w.assume(mkBin(OpUle, nT, mkConst(64, 3)))
	n := int(w.pick(nT))
	w.stubs["strings.Split on an atom: 1, 2 or 3(=3 or more) parts"]++
	if n == 1 {
		w.strFacts = append(w.strFacts, strFact{kind: "split", src: s.e, outs: []*Term{s.e}, sep: sep, n: 1})
		w.auxStr = append(w.auxStr, s.e)
		w.splitMemo[key] = []value{s}
		return []value{s}
	}
	out := make([]value, n)
	parts := make([]*Term, n)
	for j := 0; j < n; j++ {
		parts[j] = w.freshStr("part")
		out[j] = symstr{parts[j]}
	}
	w.strFacts = append(w.strFacts, strFact{kind: "split", src: s.e, outs: parts, sep: sep, n: n})
	w.auxStr = append(w.auxStr, s.e)
	w.splitMemo[key] = append([]value{}, out...)
	return out
}

// hostCIDR is ParseCIDR(X + "/32") for an atom X.
func (i *interpreter) hostCIDR(x *Term, errT types.Type) value {
	w := i.w
	mk4 := func(t *Term) value {
		out := make([]value, 4)
		for j := 0; j < 4; j++ {
			out[j] = mkSym(types.Uint8, mkExtract(t, 31-8*j, 24-8*j))
		}
		return out
	}
	var ip *Term
	if x.op == OpUF && x.name == "ipstr" {
		ip = x.args[0]
	} else {
		ok := mkUF("host_ok", 0, x)
		ip = mkUF("host_ip", 32, x)
		w.noteStrFact("hostcidr", x, ok, ip)
		if !w.decide(ok) {
			return tuple{[]value(nil), (*value)(nil), i.opaqueError("invalid CIDR address")}
		}
	}
	ip16 := make([]value, 16)
	for j := 0; j < 10; j++ {
		ip16[j] = uint8(0)
	}
	ip16[10], ip16[11] = uint8(0xff), uint8(0xff)
	copy(ip16[12:], mk4(ip).([]value))
	ones := []value{uint8(255), uint8(255), uint8(255), uint8(255)}
	return tuple{ip16, i.ipNetValue(mk4(ip), ones), zero(errT)}
}

// ---------------------------------------------------------------------------
// Inversion: model -> concrete text.

// strValue returns the concrete string a model assigns to a Str input.
func (w *worker) strValue(in *Term, m *model) string {
	if m == nil {
		return ""
	}
	inv := &inverter{w: w, m: m, memo: map[*Term]string{}, fresh: map[string]string{}}
	return inv.value(in)
}

type inverter struct {
	w     *worker
	m     *model
	memo  map[*Term]string
	fresh map[string]string
}

func (iv *inverter) factFor(kind string, src *Term) *strFact {
	for k := range iv.w.strFacts {
		f := &iv.w.strFacts[k]
		if f.kind == kind && f.src == src {
			return f
		}
	}
	return nil
}

func (iv *inverter) bv(t *Term) (uint64, bool) {
	v, ok := iv.m.tv[t]
	return v, ok
}

func (iv *inverter) value(t *Term) string {
	if s, ok := iv.memo[t]; ok {
		return s
	}
	s := iv.compute(t)
	iv.memo[t] = s
	return s
}

func (iv *inverter) compute(t *Term) string {
	switch t.op {
	case OpStrLit:
		return t.name
	case OpUF:
		switch {
		case t.name == "strcat":
			return iv.value(t.args[0]) + iv.value(t.args[1])
		case t.name == "ipstr":
			v, _ := iv.m.eval(t.args[0], map[*Term]uint64{})
			return fmt.Sprintf("%d.%d.%d.%d", byte(v>>24), byte(v>>16), byte(v>>8), byte(v))
		case isB2S(t):
			b := make([]byte, len(t.args))
			for j, a := range t.args {
				v, _ := iv.m.eval(a, map[*Term]uint64{})
				b[j] = byte(v)
			}
			return string(b)
		}
	}
	abs, known := iv.m.ts[t]
	if !known && t.op == OpVar {
		// a model that travelled with a work item is keyed by input name
		abs, known = iv.m.str[t.name]
	}
	// structured by a stub? (structure wins over an accidental equality with a literal)
	if f := iv.factFor("trim", t); f != nil && f.n == 1 {
		return " " + iv.value(f.outs[1])
	}
	if f := iv.factFor("fields", t); f != nil {
		if f.n == 0 {
			if known && abs == "" {
				return ""
			}
			return " "
		}
		parts := make([]string, len(f.outs))
		for j, o := range f.outs {
			parts[j] = iv.value(o)
		}
		return strings.Join(parts, " ")
	}
	// a variable: equal to a literal in the model?
	if known && !strings.HasPrefix(abs, "\x00") {
		return abs
	}
	if f := iv.factFor("split", t); f != nil && f.n >= 2 {
		parts := make([]string, len(f.outs))
		for j, o := range f.outs {
			parts[j] = iv.value(o)
		}
		return strings.Join(parts, f.sep)
	}
	if f := iv.factFor("parsecidr", t); f != nil {
		if ok, _ := iv.bv(f.outs[0]); ok != 0 {
			ip, _ := iv.bv(f.outs[1])
			pl, _ := iv.bv(f.outs[2])
			return fmt.Sprintf("%d.%d.%d.%d/%d", byte(ip>>24), byte(ip>>16), byte(ip>>8), byte(ip), pl)
		}
	}
	if f := iv.factFor("hostcidr", t); f != nil {
		if ok, _ := iv.bv(f.outs[0]); ok != 0 {
			ip, _ := iv.bv(f.outs[1])
			return fmt.Sprintf("%d.%d.%d.%d", byte(ip>>24), byte(ip>>16), byte(ip>>8), byte(ip))
		}
	}
	if f := iv.factFor("parseip", t); f != nil {
		if ok, _ := iv.bv(f.outs[0]); ok != 0 {
			ip, _ := iv.bv(f.outs[1])
			return fmt.Sprintf("%d.%d.%d.%d", byte(ip>>24), byte(ip>>16), byte(ip>>8), byte(ip))
		}
	}
	if f := iv.factFor("parseuint", t); f != nil {
		if ok, _ := iv.bv(f.outs[0]); ok != 0 {
			v, _ := iv.bv(f.outs[1])
			return strconv.FormatUint(v, f.n)
		}
	}
	if f := iv.factFor("parsedur", t); f != nil {
		if ok, _ := iv.bv(f.outs[0]); ok != 0 {
			v, _ := iv.bv(f.outs[1])
			return time.Duration(int64(v)).String()
		}
	}
	// unconstrained: a fresh word (fails every parser, equals no literal,
	// contains no separator); equal abstract values get equal words
	key := abs
	if !known {
		key = "t:" + t.name
	}
	if s, ok := iv.fresh[key]; ok {
		return s
	}
	s := fmt.Sprintf("zq%dx", len(iv.fresh))
	iv.fresh[key] = s
	return s
}
