// Contract stubs for string-consuming library functions on symbolic strings
// (atoms). See DESIGN.md §3.6.

package interp

type strFact struct {
	kind string
	src  *Term
	outs []*Term
}

func (w *worker) noteStrFact(kind string, src *Term, outs ...*Term) {
	w.strFacts = append(w.strFacts, strFact{kind, src, outs})
}

func registerStringStubs() {}

