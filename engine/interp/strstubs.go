// Contract stubs for string-consuming library functions on symbolic strings
// (atoms). See DESIGN.md §3.6.

package interp

type strFact struct {
	kind string
	src  *Term
	outs []*Term
}

func (w *worker) noteStrFact(kind string, src *Term, outs ...*Term) {
	w.strFacts = append(w.strFacts, strFact{kind, src, outs})
}

func registerStringStubs() {}


// strValue returns the concrete string a model assigns to a Str input. The
// replay-side reconstruction of structured strings (tokens, CIDRs, numbers)
// from the recorded facts happens in strinv.go.
func (w *worker) strValue(in *Term, m *model) string {
	if m == nil {
		return ""
	}
	s, ok := m.str[in.name]
	if !ok {
		return "~" + in.name + "~"
	}
	if len(s) > 0 && s[0] == 0 {
		return "~" + s[7:] + "~"
	}
	return s
}
