// Interpreted goroutines: host goroutines under a baton.
//
// Exactly one interpreted goroutine runs at any time; the baton changes hands
// only when the running goroutine cannot proceed (blocking channel operation,
// select with nothing ready, contended mutex) or finishes. The next goroutine
// is chosen in FIFO order among those for which something changed since they
// last blocked. Execution is therefore deterministic and replayable: ONE
// schedule is executed, not all of them - interleavings are outside every
// claim made with this engine.

package interp

import (
	"go/token"

	"golang.org/x/tools/go/ssa"
)

type gor struct {
	id        int
	name      string
	resume    chan struct{}
	done      bool
	started   bool
	blockedAt int // value of interpreter.progress when it last found itself blocked (-1: never)
	panicVal  interface{}
	// saved per-goroutine interpreter context
	cur   ssa.Instruction
	top   *frame
	depth int
}

type goroutineAbort struct{}

func (i *interpreter) initSched() {
	main := &gor{id: 0, name: "main", resume: make(chan struct{}), started: true, blockedAt: -1}
	i.gors = []*gor{main}
	i.curG = main
	i.progress = 0
	i.abortAll = false
}

func (i *interpreter) saveCtx(g *gor) {
	g.cur, g.top, g.depth = i.w.cur, i.top, i.depth
}

func (i *interpreter) restoreCtx(g *gor) {
	i.w.cur, i.top, i.depth = g.cur, g.top, g.depth
}

// spawnGoroutine registers a new interpreted goroutine; it first runs when
// the baton reaches it.
func (i *interpreter) spawnGoroutine(name string, pos token.Pos, fn value, args []value) {
	g := &gor{id: len(i.gors), name: name, resume: make(chan struct{}), blockedAt: -1}
	i.gors = append(i.gors, g)
	i.progress++
	go func() {
		<-g.resume
		if i.abortAll {
			g.done = true
			i.sync <- struct{}{}
			return
		}
		g.started = true
		defer func() {
			if r := recover(); r != nil {
				if _, ok := r.(goroutineAbort); ok {
					g.done = true
					i.sync <- struct{}{}
					return
				}
				g.panicVal = r
			}
			g.done = true
			i.progress++
			i.handOff(g)
		}()
		call(i, nil, pos, fn, args)
	}()
}

// handOff gives the baton away from a goroutine that has finished.
func (i *interpreter) handOff(from *gor) {
	n := len(i.gors)
	// a panic (target or engine) in a goroutine is reported through main
	if from.panicVal != nil {
		i.switchTo(i.gors[0])
		return
	}
	for k := 1; k <= n; k++ {
		g := i.gors[(from.id+k)%n]
		if !g.done {
			i.switchTo(g)
			return
		}
	}
}

// switchTo transfers the baton without waiting to get it back.
func (i *interpreter) switchTo(g *gor) {
	i.curG = g
	i.restoreCtx(g)
	g.resume <- struct{}{}
}

// yield lets another goroutine run; it returns false if no other goroutine
// can make progress (the caller is then deadlocked, or may fire a timer).
func (i *interpreter) yield() bool {
	me := i.curG
	me.blockedAt = i.progress
	n := len(i.gors)
	var next *gor
	for k := 1; k < n; k++ {
		g := i.gors[(me.id+k)%n]
		if !g.done && g.blockedAt != i.progress {
			next = g
			break
		}
	}
	if next == nil {
		return false
	}
	i.saveCtx(me)
	i.switchTo(next)
	<-me.resume
	if i.abortAll {
		panic(goroutineAbort{})
	}
	i.curG = me
	i.restoreCtx(me)
	i.raiseGoroutinePanics()
	return true
}

// raiseGoroutinePanics re-raises, in the main goroutine, a panic that ended
// another goroutine (an unrecovered panic in any goroutine kills the process).
func (i *interpreter) raiseGoroutinePanics() {
	if i.curG.id != 0 {
		return
	}
	for _, g := range i.gors[1:] {
		if g.panicVal != nil {
			p := g.panicVal
			g.panicVal = nil
			panic(p)
		}
	}
}

// reapGoroutines ends every parked goroutine at the end of a path.
func (i *interpreter) reapGoroutines() {
	i.abortAll = true
	for _, g := range i.gors[1:] {
		if !g.done {
			g.resume <- struct{}{}
			<-i.sync
		}
	}
	i.gors = i.gors[:1]
	i.abortAll = false
}

// blockUntil retries op until it succeeds, yielding the baton in between;
// when nobody can make progress it raises the given blockEvent.
func (i *interpreter) blockUntil(op func() bool, what string, c *chanv) {
	for !op() {
		if !i.yield() {
			panic(blockEvent{what, c})
		}
	}
	i.progress++
}

// blockUntilOr is blockUntil with a last resort tried when nobody can make progress.
func (i *interpreter) blockUntilOr(op func() bool, lastResort func() bool, what string, c *chanv) {
	for !op() {
		if !i.yield() {
			if lastResort() {
				break
			}
			panic(blockEvent{what, c})
		}
	}
	i.progress++
}
