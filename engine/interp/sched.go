// Interpreted goroutines: host goroutines under a baton.
//
// Exactly one interpreted goroutine runs at any time; the baton changes hands
// only when the running goroutine cannot proceed (blocking channel operation,
// select with nothing ready, contended mutex) or finishes. The next goroutine
// is chosen in FIFO order among those for which something changed since they
// last blocked. Execution is therefore deterministic and replayable: ONE
// schedule is executed, not all of them - interleavings are outside every
// claim made with this engine.

package interp

import (
	"fmt"
	"go/token"

	"golang.org/x/tools/go/ssa"
)

type gor struct {
	id        int
	name      string
	resume    chan struct{}
	done      bool
	started   bool
	blockedAt int // value of interpreter.progress when it last found itself blocked (-1: never)
	timerWait bool // blocked in a select / receive that has an armed timer channel
	noPreempt int  // >0: inside an operation that already took its decision point
	// waitReady: set while the goroutine is blocked in an operation whose
	// readiness can be told without side effects (nil: unknown - assume it may
	// be able to go on). Used only to avoid pointless preemption targets.
	waitReady func() bool
	panicVal  interface{}
	// saved per-goroutine interpreter context
	cur   ssa.Instruction
	top   *frame
	depth int
}

type goroutineAbort struct{}

func (i *interpreter) initSched() {
	main := &gor{id: 0, name: "main", resume: make(chan struct{}), started: true, blockedAt: -1}
	i.gors = []*gor{main}
	i.curG = main
	i.progress = 0
	i.abortAll = false
}

func (i *interpreter) saveCtx(g *gor) {
	g.cur, g.top, g.depth = i.w.cur, i.top, i.depth
}

func (i *interpreter) restoreCtx(g *gor) {
	i.w.cur, i.top, i.depth = g.cur, g.top, g.depth
}

// spawnGoroutine registers a new interpreted goroutine; it first runs when
// the baton reaches it.
func (i *interpreter) spawnGoroutine(name string, pos token.Pos, fn value, args []value) {
	g := &gor{id: len(i.gors), name: name, resume: make(chan struct{}), blockedAt: -1}
	i.gors = append(i.gors, g)
	i.progress++
	go func() {
		<-g.resume
		if i.abortAll {
			g.done = true
			i.sync <- struct{}{}
			return
		}
		g.started = true
		defer func() {
			if r := recover(); r != nil {
				if _, ok := r.(goroutineAbort); ok {
					g.done = true
					i.sync <- struct{}{}
					return
				}
				g.panicVal = r
			}
			g.done = true
			i.progress++
			i.handOff(g)
		}()
		call(i, nil, pos, fn, args)
	}()
}

// handOff gives the baton away from a goroutine that has finished.
func (i *interpreter) handOff(from *gor) {
	n := len(i.gors)
	// a panic (target or engine) in a goroutine is reported through main
	if from.panicVal != nil {
		i.switchTo(i.gors[0])
		return
	}
	for k := 1; k <= n; k++ {
		g := i.gors[(from.id+k)%n]
		if !g.done {
			i.switchTo(g)
			return
		}
	}
}

// switchTo transfers the baton without waiting to get it back.
func (i *interpreter) switchTo(g *gor) {
	if i.w != nil && i.w.usesSched && len(i.w.schedLog) < 400 {
		from := "?"
		if i.curG != nil {
			from = fmt.Sprintf("g%d %s", i.curG.id, i.curG.name)
			if i.curG.done {
				from += " (finished)"
			} else {
				from += " @ " + i.w.where()
			}
		}
		i.w.schedLog = append(i.w.schedLog, fmt.Sprintf("%s -> g%d %s", from, g.id, g.name))
	}
	i.curG = g
	i.restoreCtx(g)
	g.resume <- struct{}{}
}

// yield lets another goroutine run; it returns false if no other goroutine
// can make progress (the caller is then deadlocked, or may fire a timer).
func (i *interpreter) yield() bool { return i.yieldHow(false) }

// yieldHow(voluntary): a voluntary yield (a preemption decision) does not mark
// the goroutine as blocked: it stays eligible whatever happens meanwhile.
func (i *interpreter) yieldHow(voluntary bool) bool {
	me := i.curG
	if !voluntary {
		me.blockedAt = i.progress
	}
	n := len(i.gors)
	var next *gor
	for k := 1; k < n; k++ {
		g := i.gors[(me.id+k)%n]
		if !g.done && g.blockedAt != i.progress {
			next = g
			break
		}
	}
	if next == nil {
		return false
	}
	i.saveCtx(me)
	i.switchTo(next)
	<-me.resume
	if i.abortAll {
		panic(goroutineAbort{})
	}
	i.curG = me
	i.restoreCtx(me)
	i.raiseGoroutinePanics()
	return true
}

// raiseGoroutinePanics re-raises, in the main goroutine, a panic that ended
// another goroutine (an unrecovered panic in any goroutine kills the process).
func (i *interpreter) raiseGoroutinePanics() {
	if i.curG.id != 0 {
		return
	}
	for _, g := range i.gors[1:] {
		if g.panicVal != nil {
			p := g.panicVal
			g.panicVal = nil
			panic(p)
		}
	}
}

// reapGoroutines ends every parked goroutine at the end of a path.
func (i *interpreter) reapGoroutines() {
	i.abortAll = true
	for _, g := range i.gors[1:] {
		if !g.done {
			g.resume <- struct{}{}
			<-i.sync
		}
	}
	i.gors = i.gors[:1]
	i.abortAll = false
}

// blockUntil retries op until it succeeds, yielding the baton in between;
// when nobody can make progress it raises the given blockEvent.
func (i *interpreter) blockUntil(op func() bool, what string, c *chanv) {
	for !op() {
		if !i.yield() {
			panic(blockEvent{what, c})
		}
	}
	i.progress++
}

// blockedOn runs f (a blocking wait) with the goroutine's side-effect-free
// readiness test registered.
func (i *interpreter) blockedOn(ready func() bool, f func()) {
	me := i.curG
	old := me.waitReady
	me.waitReady = ready
	defer func() { me.waitReady = old }()
	f()
}

// blockUntilOr is blockUntil with a last resort tried when nobody can make progress.
func (i *interpreter) blockUntilOr(op func() bool, lastResort func() bool, what string, c *chanv) {
	for !op() {
		if !i.yield() {
			if lastResort() {
				break
			}
			panic(blockEvent{what, c})
		}
	}
	i.progress++
}

// ---------------------------------------------------------------------------
// Schedules at lock granularity (opt-in per harness: vPreemptAtLocks(n)).
//
// For code whose shared accesses all happen under their locks (which the lock-
// discipline check establishes on the same paths), the only interleavings that
// matter are those of whole critical sections. With preemption enabled, every
// mutex acquisition while another interpreted goroutine can run is a decision
// point: either go on, or let the others run first. The decision is a fresh
// 1-bit input (sched_yield), so the path exploration forks over it like over
// any other branch; at most n preemptions are taken on a path (context-switch
// bound). A violation found on a path with a preemption depends on the
// schedule: it is confirmed natively by the harness's stress function, not by
// a deterministic replay.

func (i *interpreter) maybePreempt(mu *value) {
	w := i.w
	if w.preemptLeft <= 0 || w.local != nil {
		return
	}
	if (len(w.preemptOn) > 0 || w.preemptChans) && !w.preemptOn[mu] {
		return // the harness named the locks of the shared objects: others belong to one goroutine
	}
	other := false
	for _, g := range i.gors {
		if g != i.curG && !g.done && g.id != 0 {
			other = true
			break
		}
	}
	if !other {
		return
	}
	t := w.newInput("sched_yield", 1)
	if w.decide(mkEq(t, mkConst(1, 1))) {
		w.preemptLeft--
		w.preempted++
		i.yieldHow(true)
	}
}

// joinAll lets every other goroutine run to completion (the engine's
// counterpart of WaitGroup.Wait, which is a no-op in the model).
func (i *interpreter) joinAll() {
	i.mainWaiting = true
	defer func() { i.mainWaiting = false }()
	for {
		pending := false
		for _, g := range i.gors {
			if g != i.curG && !g.done {
				pending = true
				break
			}
		}
		if !pending {
			return
		}
		before := i.progress
		if !i.yield() {
			// nobody is runnable by the usual rule; a goroutine waiting in a select
			// with a timer case can still go on (its timer fires when it finds that
			// nobody else can run): hand it the baton explicitly
			if !i.yieldForce() || i.progress == before {
				panic(blockEvent{"deadlock: goroutines that cannot finish", nil})
			}
		}
	}
}

// yieldForce hands the baton to the next goroutine that is not done, even one
// that found itself blocked at the current progress count.
func (i *interpreter) yieldForce() bool {
	me := i.curG
	me.blockedAt = i.progress
	n := len(i.gors)
	var next *gor
	for k := 1; k < n; k++ {
		g := i.gors[(me.id+k)%n]
		if !g.done {
			next = g
			break
		}
	}
	if next == nil {
		return false
	}
	i.saveCtx(me)
	i.switchTo(next)
	<-me.resume
	if i.abortAll {
		panic(goroutineAbort{})
	}
	i.curG = me
	i.restoreCtx(me)
	i.raiseGoroutinePanics()
	return true
}

// ---------------------------------------------------------------------------
// Schedules at synchronisation-operation granularity (opt-in per harness:
// vPreemptAtChans(n)).
//
// For code whose goroutines communicate through channels, contexts and
// sync.Map (association teardown: node.Serve, PFCPConn.Serve, the reader
// goroutine, the heartbeat monitor), every channel send / receive / close,
// every select and every sync.Map operation executed while another
// interpreted goroutine could run is a decision point: go on, or hand the
// baton to ONE of the other eligible goroutines (which one is part of the
// decision). The decisions are fresh 1-bit inputs, so the exploration forks
// over them like over any branch; at most n preemptions are taken on a path
// (context-switch bound). Switches at blocking operations are free and go to
// the next eligible goroutine in FIFO order. A select with several ready cases
// forks over which one is taken (Go picks at random). Interleavings finer than
// synchronisation operations (unsynchronised shared accesses) are NOT
// explored and are outside any claim made with this mode.

func (i *interpreter) maybePreemptSync() {
	w := i.w
	if !w.preemptChans || w.preemptLeft <= 0 || w.local != nil || i.curG.noPreempt > 0 {
		return
	}
	me := i.curG
	var cands []*gor
	n := len(i.gors)
	for k := 1; k < n; k++ {
		g := i.gors[(me.id+k)%n]
		if g.done || g.blockedAt == i.progress {
			continue
		}
		if g.id == 0 && i.mainWaiting {
			continue
		}
		if g.waitReady != nil && !g.waitReady() {
			continue // still blocked: handing it the baton would change nothing
		}
		cands = append(cands, g)
	}
	for _, g := range cands {
		t := w.newInput("sched_yield", 1)
		if w.decideFresh(t) {
			w.preemptLeft--
			w.preempted++
			i.yieldTo(g)
			return
		}
	}
}

// timerMayFireEarly: schedules are explored, a preemption is left and some
// other goroutine could run (otherwise the timer fires anyway, for free).
func (i *interpreter) timerMayFireEarly() bool {
	w := i.w
	if !w.preemptChans || w.preemptLeft <= 0 || w.local != nil {
		return false
	}
	me := i.curG
	for _, g := range i.gors {
		if g == me || g.done {
			continue
		}
		if g.id == 0 {
			if !i.mainWaiting {
				return true
			}
			continue
		}
		if g.waitReady != nil {
			if g.waitReady() {
				return true
			}
			continue
		}
		if g.blockedAt != i.progress {
			return true
		}
	}
	return false
}

// yieldTo hands the baton to g voluntarily (the caller stays eligible).
func (i *interpreter) yieldTo(g *gor) {
	me := i.curG
	i.saveCtx(me)
	i.switchTo(g)
	<-me.resume
	if i.abortAll {
		panic(goroutineAbort{})
	}
	i.curG = me
	i.restoreCtx(me)
	i.raiseGoroutinePanics()
}

// settle lets the other goroutines run until nobody can make progress any
// more (timers fire when everybody else is blocked, as always); unlike
// joinAll it does not demand that they finish.
func (i *interpreter) settle() {
	i.mainWaiting = true
	defer func() { i.mainWaiting = false }()
	for rounds := 0; rounds < 100000; rounds++ {
		// main stays eligible (voluntary yield): the last goroutine to block hands
		// the baton back instead of finding itself deadlocked. A goroutine that
		// was preempted is still eligible and runs on the next round.
		if i.yieldHow(true) {
			continue
		}
		// nobody is eligible: a goroutine waiting on a timer may go on
		before := i.progress
		if !i.yieldToTimerWaiter() || i.progress == before {
			return
		}
	}
	panic(blockEvent{"livelock: the goroutines never settle", nil})
}

// yieldToTimerWaiter hands the baton to the next goroutine that is blocked in
// a select or receive with an armed timer channel.
func (i *interpreter) yieldToTimerWaiter() bool {
	me := i.curG
	me.blockedAt = i.progress
	n := len(i.gors)
	var next *gor
	for k := 1; k < n; k++ {
		g := i.gors[(me.id+k)%n]
		if !g.done && g.timerWait {
			next = g
			break
		}
	}
	if next == nil {
		return false
	}
	i.saveCtx(me)
	i.switchTo(next)
	<-me.resume
	if i.abortAll {
		panic(goroutineAbort{})
	}
	i.curG = me
	i.restoreCtx(me)
	i.raiseGoroutinePanics()
	return true
}
